#!/bin/bash
# setup.sh — run once after a fresh restore, offline: warm the Go build cache and build the harness.
set -eu
export GOFLAGS=-mod=mod GOPROXY=off GOSUMDB=off GOTOOLCHAIN=local CGO_ENABLED=0
D="$(cd "$(dirname "$0")" && pwd)"
cd "$D/harness"
cp -f /repo/go.sum go.sum
mkdir -p "$D/bin" "$D/evidence" "$D/replays"
go build -tags verif -o "$D/bin/vcheck" ./cmd/vcheck
echo "setup ok"
