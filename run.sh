#!/bin/bash
# run.sh <Cxx> <quick|thorough>   — build the harness against /repo's current tree (hooks on) and run one check.
# run.sh replay <file>            — re-execute a recorded violation.
# Exit: 0 held / 1 violation (VIOLATION lines) / 2 harness or build problem.
set -u
export GOFLAGS=-mod=mod GOPROXY=off GOSUMDB=off GOTOOLCHAIN=local CGO_ENABLED=0
export VERIF_DIR="${VERIF_DIR:-$(cd "$(dirname "$0")" && pwd)}"
export VERIF_REPO="${VERIF_REPO:-/repo}"
cd "$VERIF_DIR/harness" || exit 2
cp -f "$VERIF_REPO/go.sum" go.sum 2>/dev/null
mkdir -p "$VERIF_DIR/bin"
BIN="$VERIF_DIR/bin/vcheck"
( flock 9
  if ! go build -tags verif -o "$BIN.tmp.$$" ./cmd/vcheck 2> "$VERIF_DIR/bin/build.$$.log"; then
    echo "HARNESS-ERROR: build against $VERIF_REPO failed:" >&2
    cat "$VERIF_DIR/bin/build.$$.log" >&2
    rm -f "$VERIF_DIR/bin/build.$$.log" "$BIN.tmp.$$"
    exit 2
  fi
  rm -f "$VERIF_DIR/bin/build.$$.log"
  mv -f "$BIN.tmp.$$" "$BIN.$$"
) 9> "$VERIF_DIR/bin/.lock" || exit 2
trap 'rm -f "$BIN.$$"' EXIT
"$BIN.$$" "$@"
