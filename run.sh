#!/bin/bash
# run.sh <Cxx> <quick|thorough>   — build the harness against /repo's current tree (hooks on) and run one check.
# run.sh replay <file>            — re-execute a recorded violation.
# Exit: 0 held / 1 violation (VIOLATION lines) / 2 harness or build problem.
set -u
export GOFLAGS=-mod=mod GOPROXY=off GOSUMDB=off GOTOOLCHAIN=local CGO_ENABLED=0
export VERIF_DIR="${VERIF_DIR:-$(cd "$(dirname "$0")" && pwd)}"
export VERIF_REPO="${VERIF_REPO:-/repo}"
# a replay file may be named relative to the caller's directory
if [ "${1:-}" = "replay" ] && [ -n "${2:-}" ] && [ "${2#/}" = "$2" ]; then set -- replay "$PWD/$2" "${@:3}"; fi
cd "$VERIF_DIR/harness" || exit 2
cp -f "$VERIF_REPO/go.sum" go.sum 2>/dev/null
mkdir -p "$VERIF_DIR/bin"
BIN="$VERIF_DIR/bin/vcheck"
BUILDARGS=(-tags verif)
NEEDOV=""
case "${1:-}" in C12) NEEDOV=must ;; C19) NEEDOV=try ;; replay) grep -q '"property": "C12"' "${2:-/dev/null}" 2>/dev/null && NEEDOV=must; grep -q '"property": "C19"' "${2:-/dev/null}" 2>/dev/null && NEEDOV=try ;; esac
if [ -n "$NEEDOV" ]; then
  # crash-point check: db/fs is compiled against the os shim through a build overlay generated from the current tree
  OV="$VERIF_DIR/.work/overlay.$$"
  mkdir -p "$OV"
  if ! go run ./cmd/mkoverlay "$VERIF_REPO" "$VERIF_DIR/harness" "$OV" > "$OV/log" 2>&1; then
    if [ "$NEEDOV" = must ]; then
      echo "HARNESS-ERROR: overlay generation failed:" >&2; cat "$OV/log" >&2; rm -rf "$OV"; exit 2
    fi
    echo "note: overlay generation failed; C19 runs without file-operation scheduling points" >&2
  else
    BUILDARGS=(-tags "verif overlay" -overlay "$OV/overlay.json")
    if [ "$NEEDOV" = try ] && ! go build "${BUILDARGS[@]}" -o /dev/null ./cmd/vcheck 2>/dev/null; then
      echo "note: overlay build failed; C19 runs without file-operation scheduling points" >&2
      BUILDARGS=(-tags verif)
    fi
  fi
fi
if [ "${1:-}" = "C19" ] || { [ "${1:-}" = "replay" ] && grep -q '"property": "C19"' "${2:-/dev/null}" 2>/dev/null; }; then
  # separate free-running pass under the race detector (needs cgo); if it cannot be built the pass is skipped and said so
  if CGO_ENABLED=1 go build -race -tags verif -o "$BIN.race.$$" ./cmd/vcheck 2> "$VERIF_DIR/bin/race.$$.log"; then
    export VERIF_RACE_BIN="$BIN.race.$$"
  else
    echo "note: -race binary could not be built; race pass skipped" >&2
  fi
  rm -f "$VERIF_DIR/bin/race.$$.log"
fi
( flock 9
  if ! go build "${BUILDARGS[@]}" -o "$BIN.tmp.$$" ./cmd/vcheck 2> "$VERIF_DIR/bin/build.$$.log"; then
    echo "HARNESS-ERROR: build against $VERIF_REPO failed:" >&2
    cat "$VERIF_DIR/bin/build.$$.log" >&2
    rm -f "$VERIF_DIR/bin/build.$$.log" "$BIN.tmp.$$"
    exit 2
  fi
  rm -f "$VERIF_DIR/bin/build.$$.log"
  mv -f "$BIN.tmp.$$" "$BIN.$$"
) 9> "$VERIF_DIR/bin/.lock" || exit 2
trap 'rm -f "$BIN.$$" "$BIN.race.$$"; rm -rf "$VERIF_DIR/.work/overlay.$$"' EXIT
"$BIN.$$" "$@"
