#!/bin/bash
# tools/keepmutant.sh <Cxx> <N> "<RESULT line from evalmutant.sh>" [note]
# Files a confirmed seeded change under /verif/seeded/<Cxx>-m<N>/ (patch.diff, demo/, meta.json).
C="$1"; N="$2"; R="$3"; NOTE="${4:-}"
S=${MUTSRC:-/tmp/mut/$C/out}; D=/verif/seeded/$C-m${MUTIDX:-$N}
mkdir -p "$D"
cp "$S/m$N.diff" "$D/patch.diff"
rm -rf "$D/demo"; cp -r "$S/m${N}_demo" "$D/demo" 2>/dev/null
find "$D/demo" -type f \( -name "go.sum" -o -name "*.test" \) -delete 2>/dev/null
python3 - "$S/m$N.json" "$D/meta.json" "$C" "$R" "$NOTE" "${CHECK:-$C}" <<'PY'
import json,sys
src,dst,c,r,note,chk=sys.argv[1:7]
try: a=json.load(open(src))
except Exception: a={}
caught = 'check_exit=1' in r
json.dump({"property":c,"breaks":a.get("summary",""),"needs_to_manifest":a.get("needs_to_manifest",""),"files":a.get("files",[]),
 "author":"fresh sub-agent given only the property text and its own worktree",
 "confirmed":"tools/evalmutant.sh: patch applies at /repo HEAD, tools/baseline.sh 256/256 with the change, demo/run.sh fails with and passes without it; then applied to /repo, check run, patch undone",
 "result":r,"caught_by_check":caught,"check_run":chk,"note":note},open(dst,'w'),indent=1)
PY
echo "kept $D"
