#!/usr/bin/env python3
"""Prints the markdown table of seeded changes (seeded/*/meta.json) for DESIGN.md §0.4."""
import json, glob, os, re
D = os.path.dirname(os.path.dirname(os.path.abspath(__file__)))
print("| seeded change | what it changes (author's summary, shortened) | needs | caught by | signatures | note |")
print("|---|---|---|---|---|---|")
for p in sorted(glob.glob(os.path.join(D, "seeded", "*", "meta.json"))):
    m = json.load(open(p)); name = os.path.basename(os.path.dirname(p))
    sigs = re.findall(r"sig=([^ ]+)", m.get("result", ""))
    sig = sigs[0].replace("sig=", "") if sigs else ""
    sig = ", ".join(s for s in sig.replace("sig=", "").split(",") if s)[:90]
    def short(s, n): 
        s = " ".join(str(s).split()); return (s[:n] + "...") if len(s) > n else s
    caught = (m.get("check_run") or m["property"]) + " quick" if m.get("caught_by_check") else "NOT CAUGHT"
    print(f"| {name} | {short(m.get('breaks',''),150)} | {short(m.get('needs_to_manifest',''),110)} | {caught} | {sig} | {short(m.get('note',''),160)} |")
