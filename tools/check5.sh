#!/bin/bash
# tools/check5.sh <patch> <Cxx> [tier] — phase 2: apply the patch to /repo, run the check (from $EVAL_VERIF, a snapshot of /verif, if set), undo
P="$1"; C="$2"; T="${3:-quick}"
if [ -n "$(git -C /repo status --porcelain)" ]; then echo "CHECK $C: /repo not clean, refusing"; exit 2; fi
git -C /repo apply "$P" || { echo "CHECK $C: patch does not apply"; exit 2; }
out=$(cd "${EVAL_VERIF:-/verif}" && timeout 3600 ./run.sh "$C" "$T" 2>&1); rc=$?
git -C /repo checkout -- . ; git -C /repo clean -fdq -- . >/dev/null 2>&1
sigs=$(echo "$out" | grep -E "^  sig=" | sed 's/ occurrences.*//' | tr -d ' ' | tr '\n' ',' )
echo "CHECK $C $(basename $(dirname $P))/$(basename $P) tier=$T: check_exit=$rc $sigs"
[ $rc = 2 ] && echo "$out" | tail -5
