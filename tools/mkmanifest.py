#!/usr/bin/env python3
"""Regenerates /verif/MANIFEST.json from the table below (kept valid at all times)."""
import json, os, subprocess
D = os.path.dirname(os.path.dirname(os.path.abspath(__file__)))

# id -> (category, technique, level text, level_note, design_ref)
CLAIMED = {
 "C09": ("model_checking",
         "explicit-state BFS to fixpoint over the real cache.Cache (clone = deep copy of exported fields), invariants on every transition",
         "All reachable cache states for the stated alphabet (2 keys, 8 value lengths across the 16-bit boundary, 3 limits, capacities incl. 0, <=4 scopes) are enumerated to a fixpoint on the implementation itself; six invariants are evaluated on every transition, so within the alphabet the result holds for operation histories of any length.",
         "Trusted: the harness's deep copy of cache.Cache's exported fields is a faithful clone (the only unexported field, invalid, is never read by the operations explored). Values/keys outside the alphabet are not covered.",
         "DESIGN.md §4 C09"),
 "C14": ("exploration",
         "exhaustive input-space enumeration (all 2^32 integers, all symbol lengths 1..255, all instruction sequences <=3 over a boundary pool) with round-trip and cross-encoder comparison",
         "The argument domains the statement names are enumerated completely (thorough: every uint32; quick: boundary windows) on the real encoders/decoders; every case is compared against an independent encoder and strict decoder written for the harness, so a disagreement between the VM decoder, the disassembler, vm.NewLine and the assembler's integer/string encoders cannot hide.",
         "Trusted: the harness codec (180 lines) as the statement of the format. Whole programs are covered up to length 3 over the pool only.",
         "DESIGN.md §4 C14"),
 "C15": ("exploration",
         "exhaustive enumeration of short byte strings and of all truncations/single-byte corruptions of a program pool, checked against a strict reference decoder, under three memory presentations (poison tails)",
         "Every byte string up to length 2 (quick) / 3 (thorough) over all 256 values, every string up to length 5 / 7 over a 12-byte alphabet of opcodes, widths and letters, and every truncation and single-byte substitution of every pool program is fed to ParseAll, ToString and Vm.Run; panics in decoding, success on invalid input and dependence on bytes behind the slice end are violations.",
         "Trusted: the strict reference decoder. NOOP, zero-length symbols and zero-width integers are not constrained. The fuzzing clause of the quantifier is outside this technique and not covered.",
         "DESIGN.md §4 C15"),
 "C03": ("model_checking",
         "bounded-exhaustive enumeration of route tables x input histories on the real engine, first-match reference routing stepped in lockstep",
         "Every route table of up to three INCMP lines over six target kinds (two named nodes, '_', '<', '.', a terminal node without HALT) and three selectors (duplicates, wildcard anywhere, relative targets) is placed at two depths and driven with every input history up to depth 3; after every request the position, the number of moves (code fetches) and the invalid-input page are compared with the first-match rule.",
         "Trusted: the 40-line reference routing rule and the navigation table model. Tables longer than 3 lines, other selectors and deeper histories are not covered.",
         "DESIGN.md §4 C03"),
 "C04": ("model_checking",
         "stateless depth-bounded DFS over move sequences on the real vm.Vm and engine, documented move table as a stack machine stepped in lockstep",
         "All move sequences up to depth 6 (quick) / 8 (thorough) over three named nodes and the five relative targets, issued through MOVE, INCMP and CATCH, plus all input histories up to depth 5 / 7 of a navigator application in long-lived and persisted operation; stack, page index, Where/Depth, cache levels and the persisted snapshot are compared with the table after every move.",
         "Trusted: the 50-line stack-machine reading of navigation.texi. Two corners are left unconstrained (position after failed '_' at entry; index after '^' at entry).",
         "DESIGN.md §4 C04"),
 "C02": ("model_checking",
         "exhaustive enumeration of sink contents x templates x menus x browse configurations x every output size, each walked page by page through the real engine; one relation over the whole walk",
         "Every content of up to 5 rows over a small set of row lengths (empty rows anywhere), both sink kinds (zero-size symbol, MSINK menu), every browse configuration and every output size from 1 to the unpaginated length + 3 is walked forward to one page beyond the end and back to one page before the start; completeness and order of rows, static parts on every page, next/previous offered exactly where they lead to a page that renders, and errors past either end are checked on every walk.",
         "Trusted: the page parser of the harness (marker characters delimit the sink region). Rows are letters only. One open known finding (follow-up page that can never fit).",
         "DESIGN.md §4 C02"),
 "C01": ("model_checking",
         "bounded-exhaustive enumeration of histories x environment variants x every output size on the real engine; differential oracle against the unlimited render; sink pages walked as in C02",
         "For each application, content variant and input history the pages are first rendered without a limit; then the same history is served under every output size from 1 to the longest page + 3 and each response must be an error or exactly the unlimited page within the size. Sink configurations are walked page by page under every size and each page is checked for size and well-formedness (no partial rows, menu lines complete).",
         "Trusted: the unlimited render as the definition of the untruncated page (the property is about the limit, not about page content). Templates are literal text with placeholders.",
         "DESIGN.md §4 C01"),
 "C05": ("model_checking",
         "stateless DFS with replay over input histories x external-function answers (deviation-bounded) on a generated application family, reference VM stepped in lockstep",
         "A family of several hundred applications (LOAD/RELOAD/MAP of two symbols at every level of a depth-3 tree, sizes 0/1/4/65535, same symbol on different branches) is driven with every input history up to the depth bound; at every external call the answer is a choice point (default, empty, multi-line, over-limit, 65536 bytes) explored up to a deviation bound. After every request the external-call log, the cache contents per level with limits, the position and the rendered text are compared with the documented semantics.",
         "Trusted: ref.VM (reference interpreter, ~450 lines) as reading of the documentation; DESIGN.md §2.5 lists what it models and what it refuses to model.",
         "DESIGN.md §4 C05"),
 "C06": ("model_checking",
         "exhaustive enumeration of flag-request lists x branch programs x histories on the real engine; reference VM in lockstep + differential twin run without reserved indices + blocked-request invariants; exhaustive sweep of IsWriteableFlag",
         "Every pair of FlagSet/FlagReset lists with up to two indices from 0..10 (4489 pairs; 804 in the quick tier) is returned by the external function of 32 branch programs (CATCH/CROAK, before the HALT and inside input handling, flags 7-10, both modes) and served with all short histories in both operation modes. Three oracles: lockstep reference, twin run with indices 0-5 removed (must be identical incl. all flag bytes), and zero instructions/calls/output/state change while TERMINATE is set.",
         "Trusted: ref.VM for (i)/(ii); the twin-run and blocked-request oracles need no model. IsWriteableFlag: all 2^32 indices in the thorough tier.",
         "DESIGN.md §4 C06"),
 "C20": ("model_checking",
         "exhaustive enumeration of histories that run past the end of the session on an application family with every kind of end node, persisted operation over the memory and filesystem backends, reference VM in lockstep",
         "42 applications (end node at depth 0-2; graceful with/without last value, abnormal before/after input handling and behind a wildcard, external TERMINATE, CROAK; client flag set earlier or not) x all histories of 7 (quick) / 9 (thorough) requests over {1,0,junk} x {persisted-mem, persisted-fs, long-lived, persisted under OutputSize 9 and 14}: final output, stop flag, empty cache and kept client flags after a graceful end, re-entry at the entry node with LOADs re-run, and complete silence (zero instructions by hook count, no resource lookup, no flush error) of every request after an abnormal or forced end.",
         "Trusted: ref.VM. The Postgres-fake backend is added to the backend list when available.",
         "DESIGN.md §4 C20"),
 "C16": ("translation_validation",
         "exhaustive enumeration of assembly sources generated from an AST over argument pools, assembled by asm.Parse (and the dev/asm command), decoded by the harness's strict decoder and compared field by field with the AST",
         "All single lines over the argument pools (every opcode and batch keyword; selectors with leading zeros, letters after digits, wildcard, mixed case; all numeric widths), all programs of 2-3 (quick) / 2-4 (thorough) lines over a 40-line pool, all orders of up to 3 / 4 batch lines, several menus per source, 255/256-byte symbols, each in six layouts, plus 186 sources through the dev/asm command with and without the flag-name preprocessor: output must decode to exactly the written instructions with batch groups expanded to the documented pattern.",
         "Trusted: the harness's own assembly printer (follows instructions.texi) and strict decoder. An error return is asserted only for line forms the repository's own tests/examples assemble.",
         "DESIGN.md §4 C16"),
 "C17": ("model_checking",
         "exhaustive enumeration of (valid history, insertion position, refused input, client style, operation mode) on the real engine; two-run comparison against the history without the refused input",
         "Five applications (incl. one with a WithFirst function and a paginated sink mid-browse) x all valid histories up to depth 2 (quick) / 3 (thorough) x every insertion position x nine refused inputs (pattern failures, control bytes, 256 and 300 bytes) x three client behaviours after the refusal x {long-lived, persisted-mem, persisted-fs}: the refused request errors, runs no application code and no instruction, the stored snapshot is unchanged, and every other request is identical to the run without it; Flush before Exec is refused without effect.",
         "Trusted: nothing beyond the engine's own behaviour on the undisturbed history (differential oracle).",
         "DESIGN.md §4 C17"),
 "C18": ("model_checking",
         "stateless DFS with replay over input histories x language-switch answers on a language application family, reference VM in lockstep plus per-lookup language check on the recording resource",
         "Applications that switch language before the first HALT, while handling input, in a child node and right before the end; every switch answer is a choice among valid 2/3-letter codes, invalid strings and a valid code without the LANG flag; config language on/off; translations present for subsets of {entry template, child template, menu label}; all histories up to depth 3 (quick) / 4 (thorough) in long-lived, persisted and kept-state operation, through the harness's recording resource, the library's DbResource over db/mem (static symbols with translations) and PoResource over gettext catalogues. Every template, menu and external-function lookup must carry the session's language, rendered text must be the translation where one exists and the default otherwise, also after save/resume; unknown codes leave the language unchanged.",
         "Trusted: ref.VM's language rule (config, then last valid code) with its own table of the ISO-639 codes used in the corpus.",
         "DESIGN.md §4 C18"),
 "C13": ("fault_enumeration",
         "exhaustive enumeration of client programs x every placement of 0, 1 or 2 failing primitive driver calls against an in-process transactional fake of the pgx interface; transactional reference map + open-transaction accounting + reads through a second connection",
         "Every protocol-conformant client program up to length 4 (quick) / 6 (thorough; 5 for the language-scoped variant) over {Put k1 v, Put k1 v', Put k2 v, Get k1, Get k2, Get missing, Start, Stop, Abort} followed by Close is first run fault-free to count its driver calls, then re-run on a fresh server for every single call number and every pair failing. Each run checks: the faulted operation reports an error, every transaction begun is ended exactly once and never used afterwards, later operations return the reference's values, a second connection sees exactly the acknowledged writes, and explicit transactions are atomic at Stop/Abort.",
         "Trusted: pgfake (the transactional fake: private write sets, aborted state, ErrTxClosed, strict conn-busy) as a model of PostgreSQL/pgx; real server behaviour beyond it (deadlocks, connection loss mid-row) is not modelled. Four open known findings share one cause pinned by a repository test.",
         "DESIGN.md §4 C13"),
 "C08": ("model_checking",
         "explicit-state BFS of the persisted-mode session graph per corpus application (canonical decoded snapshot + environment state, successor by replay on a fresh store) + depth-bounded enumeration of long-lived histories + directed long histories; invariants and recover() on every request",
         "Corpus of ~80 well-formed applications (collision apps of every other check, the repository's examples loaded from the current tree through the harness's own assembly reader with input-determined stubs). From every reached session state every selector and 14 junk inputs (empty, NUL, invalid UTF-8, template syntax, 255/256/300 bytes ...) are tried; every request is checked for panics, instruction budget, one cache scope per navigation level, exact size accounting, declared limits, snapshot decode/re-encode equality and continued service.",
         "Trusted: the static well-formedness checker decides which applications are in scope. State graphs are capped (400 states quick / 4000 thorough per application and configuration); capped graphs are reported. No random continuation.",
         "DESIGN.md §4 C08"),
 "C07": ("model_checking",
         "bounded-exhaustive enumeration of input histories over an application corpus, each served in lockstep by a long-lived engine and by fresh engine+persister+store handle per request on four backends and two client styles; differential oracle on the client-visible tuple + snapshot decode/re-encode equality",
         "~80 corpus applications x configuration variants x all histories up to depth 4 (quick) / 5 (thorough) over the application's selectors plus junk: per request (output, continue, Exec error?, Flush error?) must agree between the long-lived engine and every persisted twin (mem, fs text keys, fs binary keys, Postgres over the in-process fake; Finish always / only after success), and the stored record must decode to exactly the state that was saved.",
         "Trusted: nothing but the two modes themselves (differential). A long-lived engine is not continued after its session ended (documented as undefined). One open known finding (session left without code and position after two consecutive failures).",
         "DESIGN.md §4 C07"),
 "C12": ("fault_enumeration",
         "exhaustive crash-point enumeration over an instrumented os (build overlay generated from the current db/fs sources): death before/after every mutating file operation and after every write prefix of a whole request, recovery with fresh objects",
         "Three applications with growing session records x all histories up to depth 2 (quick) / 3 (thorough); for the last request of each history every crash point of every file operation between Exec and Finish - including every partial write length - is taken once: afterwards the neighbour session's record is byte-identical, the session's record decodes to the old state or to one written by a completed save, and a fresh engine answers the next input exactly as the crash-free run does from that state.",
         "Trusted: the os shim (_shimsrc/vos) models process death only (completed writes survive); power loss / dropped unsynced blocks are outside the statement. A tree whose db/fs needs os functions the shim lacks fails to build (exit 2, never a VIOLATION).",
         "DESIGN.md §4 C12"),
 "C19": ("model_checking",
         "controlled cooperative scheduler over session goroutines with scheduling points at every VM instruction, resource callback and store operation; exhaustive enumeration of all schedules up to a pre-emption bound (iterative context bounding, stateless DFS with replay); separate free-running -race pass as sampling complement",
         "Nine scenarios (2-3 sessions x 2-3 requests; configured language next to a session that switches language; hub node entered through CATCH, MOVE and INCMP; shared code slices with spare capacity and exact-capacity control; same sink browsed by both; one ending while the other browses; long-lived, persisted-mem and persisted-fs on one directory) are explored under every schedule with at most 2 (quick) / 3 (thorough) pre-emptions: each session's transcript must equal its solo transcript, the shared application data must be unchanged up to the capacity of every slice, and package-level state must be unchanged.",
         "Trusted: the cooperative scheduler sees interleavings at its yield points only; races confined to one instruction and memory-model effects are left to the separate free-running pass under the race detector (30 / 300 repetitions), which samples and is reported as such.",
         "DESIGN.md §4 C19"),
 "C10": ("model_checking",
         "exhaustive enumeration of operation sequences over a 25-letter alphabet applied in lockstep to every backend and to a reference keyed map; explicit-state search over reference states with raw-backend-state identity check for deeper sequences; exhaustive small-set sweep of Dump",
         "Part A: every sequence of 4 (quick) / 5 (thorough) operations (SetPrefix x5, SetSession x3, SetLanguage x3, SetLock/seal x3, Put x6, Get x3, Dump x2 on fs) on mem, fs, fs-binary and Postgres-over-fake with read-back through a second handle; Part B: breadth-first search over the reference states to depth 7 / 8 with every operation tried from each state's canonical path (pruning justified by comparing the backend's raw state, never used as a verdict); Part C: every set of up to 3 stored entries x every session x every prefix listed on both fs modes.",
         "Trusted: ref.KV (reference keyed map with language fallback, lock mask and seal). Dump is constrained on fs for STATE/USERDATA only. Open known findings: concatenated session key (listing under the empty session), legacy file name of resource-type keys.",
         "DESIGN.md §4 C10"),
 "C11": ("model_checking",
         "exhaustive enumeration of a universe of (type, session, key) triples over an adversarial character set: write-all/read-all, per-session and per-type isolation passes, and all short write/read interleavings over structurally suspected collision classes, on every backend",
         "Universe of 2.7 k (quick) / 12.5 k (thorough) triples (separators, type-prefix characters, language-like suffixes, empty session, binary bytes): every triple is written a unique value and read back, every session's data is probed from every other session (Get and, on fs, Dump), every type from every other type; structurally suspected collisions (equal concatenation, equal primary/legacy/cleaned file names) are run through all write/read sequences of length 3 / 4 with near-miss neighbours. A read may only return what was written to the same triple.",
         "Trusted: the reference map keyed by the triple itself. Refused Puts drop the triple (\"that the backend accepts\"). Open known findings with specific predicates: session||'.'||key concatenation collision (all backends), legacy-name collision of resource types on fs.",
         "DESIGN.md §4 C11"),
}

NOT_YET = {}

# what rounds 3 and 4 of the seeded changes added to the drivers (appended to the level text)
ADDENDA = {
 "C01": " Added later: rows longer than a page and menu-less sink pages, a menu separator longer than ':', and output sizes at the 16-bit boundary (65535..2^32-1) with a 70 kB page. Round 5: an application whose final page is larger than all others AND ends with a value (one open known finding: the final page is dropped silently when only the value fits).",
 "C02": " Added later: a three-byte menu separator and browse labels that the resource expands, in one slot of the family each. Round 5: after the refused request one step beyond the last page the way back is walked in the SAME session as well ('previous' must lead to the last page and on to page 0), and a family of longer lists (6-8 rows of 8-10 bytes) is walked under every size in both modes.",
 "C03": " Added later: in the last position of a history also a selector followed by a blank, an input with a formatting verb and an input with template syntax; the catch page must render.",
 "C04": " Added later at the engine level: a flushing persister, an engine with a first function, a first function that refuses a request (the position stays), and ResetOnEmptyInput with the empty input (four further modes). Round 5: a second alphabet with an edge back to the entry node (the entry node below itself on the stack), and a directed history to the deepest stack level (128 descents, then repeats, lateral moves and an ascent) with and without a first function.",
 "C05": " Added later: a multi-byte answer (limits count bytes) and a directed family of four applications (taken and not-taken CATCH after MAP and MOUT, a sink symbol reused as a sized value, a value loaded below the entry node and left before the session ends), all histories of depth 4/5 in both modes with and without an output size.",
 "C07": " Added later: an engine WITH a persister kept for the whole session, a gateway that serves each request through engine.Loop, and - per application - all pairs of histories of two sessions served alternately (second one also starting two requests later) through ONE flushing persister, compared with being served alone; corpus applications with a first function, two lists with different browse labels, a failing load followed by another failing instruction. Round 5: a twin whose application functions keep their own data in the store handle the persister uses (examples/db arrangement).",
 "C08": " Added later: deep descents with a first function and after a failed load, junk input at the deepest point; terminated sessions that client code unblocks by clearing TERMINATE in the stored record. Round 5: a first function that fails on one request of the session (defect found and fixed).",
 "C09": " One of the values is the byte 0xff (not valid UTF-8); the clone copies every scalar field the tree declares.",
 "C10": " Added later: SetLock(0,false) as a seal request, eng (the library's default language) as one of the two languages, keys handed over as slices with caller-owned bytes behind them, value buffers overwritten by the caller after the call, and keys of 251/252 bytes. Round 6: listings of the resource data types (stored without session) are constrained too, on handles with and without a session, while no translation of that type is stored (defect found and fixed).",
 "C11": " Added later: listing on the Postgres backend, sessions whose ids contain each other (own listing exact), records copied with Get+Put, and three persister arrangements (one per session, one re-pointed with WithSession, store handle shared with code that selects USERDATA). Round 6: two application-defined data types (64, 128; stored per session like state and user data) and session ids that differ from another id - or from the empty id - only by white space.",
 "C12": " Added later: every operation of the request is also answered once with an I/O error (refused; writes also as short writes) after which the request runs on - also with a flushing persister and a client that retries a failed Finish; and for every history the next start's read of the record fails once.",
 "C13": " Added later: Stop directly after an error inside the explicit transaction (may fail; if it reports success the transaction's writes are there). Round 5: the listing (Dump of the common prefix, drained or left after the first entry) and Abort without an explicit transaction are operations of the userdata variant's alphabet (thorough: length 5; the core alphabet without them: length 6); the '-after-earlier-stop' qualifier of the open findings is dropped for runs that leave that mode with Abort/Start before using it.",
 "C14": " Added later: every spelling of vm.NewLine's integer argument (empty, minimal, zero-padded).",
 "C15": " A panic raised in Vm.Run's own frame (opcode dispatch) counts as a decoding panic.",
 "C17": " Added later: an engine with persister kept for the session; the previous page fetched only after the refusal; an application-registered input format (and one that does not compile); every non-alphanumeric single byte; every input handed over in one reused read buffer; and the same question put to engine.Loop (over-long line in the middle of its input). Round 6: inputs that begin like accepted input but are not valid UTF-8 must be refused.",
 "C18": " Added later: translations for eng, a label shown as its own symbol by default but translated, DbResource over db/fs with translations stored as <symbol>_<code>, and an engine with a first function (its lookup language is checked like any other). Round 6: swh, a language that has an ISO 639-3 code only, among the switch answers and the translations.",
 "C19": " Added later: the library's MenuResource with per-session closures, a six-byte catch node, a template that fails after producing text, engines with a first function; built with the os shim so that the file operations of a save are scheduling points. Round 5: scenarios can give each session its own language (two sessions browsing a paginated page whose translated browse labels differ in length); and every session of every scenario is also served alone in a pristine process of its own, whose transcript must equal the one it gets in the long-running process that has served other sessions before (process-wide state that survives between sessions).",
 "C20": " Added later: a silent leaf, a function that sets TERMINATE and then fails, TERMINATE named in both flag lists, every output size 7..22, ResetOnEmptyInput with the empty input, and an engine with a first function.",
}

def main():
    props = [json.loads(l) for l in open(os.path.join(D, "properties.jsonl"))]
    checks = []
    na = []
    for p in props:
        pid = p["id"]
        if pid in CLAIMED:
            cat, tech, text, note, ref = CLAIMED[pid]
            checks.append({
                "property_id": pid,
                "quick_cmd": f"./run.sh {pid} quick",
                "thorough_cmd": f"./run.sh {pid} thorough",
                "evidence_file": f"/verif/evidence/{pid}.json",
                "replay_cmd_template": "./run.sh replay {path}",
                "engine": "vcheck",
                "level_claimed": {"category": cat, "text": text + ADDENDA.get(pid, ""), "design_ref": ref},
                "level_note": note,
                "technique": tech,
            })
        else:
            na.append({"property_id": pid, "reason": NOT_YET.get(pid, "check not built yet in this round (bounded exhaustive exploration is applicable; see DESIGN.md §4 for the planned harness)")})
    hooks_commits = subprocess.run(["git", "-C", "/repo", "log", "--format=%H", "--grep=^verif:"], capture_output=True, text=True).stdout.split()
    m = {
        "version": 1,
        "setup_cmd": "./setup.sh",
        "hooks": {
            "guard": "verif (Go build tag)",
            "enable": "go build -tags verif (done by run.sh for every check); two hooks: vm.VerifPoint, a callback invoked by Vm.Run before each instruction is decoded, and asm.VerifWriteSize/VerifWriteSym, exported wrappers of the assembler's integer and string encoders",
            "baseline_off_cmd": "cd /repo && GOFLAGS=-mod=mod GOPROXY=off GOSUMDB=off GOTOOLCHAIN=local go test -json -vet=off -count=1 -timeout 25m ./...",
            "source_commits": hooks_commits,
            "add_only": True,
        },
        "engines": [{
            "name": "vcheck", "path": "/verif/harness",
            "serves_properties": sorted(CLAIMED.keys()),
            "kind_free_text": "hand-written bounded-exhaustive explorer in Go (explicit-state BFS with visited sets, depth/deviation-bounded DFS with replay, crash/fault-point enumeration, cooperative scheduler), run directly against the go-vise packages with reference models stepped in lockstep; work sharded over 16 worker processes",
        }],
        "checks": checks,
        "not_applicable": na,
        "notes": "Every registered command rebuilds the harness against /repo's working tree with -tags verif. Exit 0 = held (KNOWN-FINDING lines possible), 1 = VIOLATION, 2 = harness/build problem. Known findings: /verif/known_findings.json.",
    }
    json.dump(m, open(os.path.join(D, "MANIFEST.json"), "w"), indent=1)
    print("claimed:", sorted(CLAIMED.keys()), "unclaimed:", [x["property_id"] for x in na])

main()
