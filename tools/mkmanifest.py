#!/usr/bin/env python3
"""Regenerates /verif/MANIFEST.json from the table below (kept valid at all times)."""
import json, os, subprocess
D = os.path.dirname(os.path.dirname(os.path.abspath(__file__)))

# id -> (category, technique, level text, level_note, design_ref)
CLAIMED = {
 "C09": ("model_checking",
         "explicit-state BFS to fixpoint over the real cache.Cache (clone = deep copy of exported fields), invariants on every transition",
         "All reachable cache states for the stated alphabet (2 keys, 8 value lengths across the 16-bit boundary, 3 limits, capacities incl. 0, <=4 scopes) are enumerated to a fixpoint on the implementation itself; six invariants are evaluated on every transition, so within the alphabet the result holds for operation histories of any length.",
         "Trusted: the harness's deep copy of cache.Cache's exported fields is a faithful clone (the only unexported field, invalid, is never read by the operations explored). Values/keys outside the alphabet are not covered.",
         "DESIGN.md §4 C09"),
}

NOT_YET = {}

def main():
    props = [json.loads(l) for l in open(os.path.join(D, "properties.jsonl"))]
    checks = []
    na = []
    for p in props:
        pid = p["id"]
        if pid in CLAIMED:
            cat, tech, text, note, ref = CLAIMED[pid]
            checks.append({
                "property_id": pid,
                "quick_cmd": f"./run.sh {pid} quick",
                "thorough_cmd": f"./run.sh {pid} thorough",
                "evidence_file": f"/verif/evidence/{pid}.json",
                "replay_cmd_template": "./run.sh replay {path}",
                "engine": "vcheck",
                "level_claimed": {"category": cat, "text": text, "design_ref": ref},
                "level_note": note,
                "technique": tech,
            })
        else:
            na.append({"property_id": pid, "reason": NOT_YET.get(pid, "check not built yet in this round (bounded exhaustive exploration is applicable; see DESIGN.md §4 for the planned harness)")})
    hooks_commits = subprocess.run(["git", "-C", "/repo", "log", "--format=%H", "--grep=^verif:"], capture_output=True, text=True).stdout.split()
    m = {
        "version": 1,
        "setup_cmd": "./setup.sh",
        "hooks": {
            "guard": "verif (Go build tag)",
            "enable": "go build -tags verif (done by run.sh for every check); vm.VerifPoint is the only hook: a callback invoked by Vm.Run before each instruction is decoded",
            "baseline_off_cmd": "cd /repo && GOFLAGS=-mod=mod GOPROXY=off GOSUMDB=off GOTOOLCHAIN=local go test -json -vet=off -count=1 -timeout 25m ./...",
            "source_commits": hooks_commits,
            "add_only": True,
        },
        "engines": [{
            "name": "vcheck", "path": "/verif/harness",
            "serves_properties": sorted(CLAIMED.keys()),
            "kind_free_text": "hand-written bounded-exhaustive explorer in Go (explicit-state BFS with visited sets, depth/deviation-bounded DFS with replay, crash/fault-point enumeration, cooperative scheduler), run directly against the go-vise packages with reference models stepped in lockstep; work sharded over 16 worker processes",
        }],
        "checks": checks,
        "not_applicable": na,
        "notes": "Every registered command rebuilds the harness against /repo's working tree with -tags verif. Exit 0 = held (KNOWN-FINDING lines possible), 1 = VIOLATION, 2 = harness/build problem. Known findings: /verif/known_findings.json.",
    }
    json.dump(m, open(os.path.join(D, "MANIFEST.json"), "w"), indent=1)
    print("claimed:", sorted(CLAIMED.keys()), "unclaimed:", [x["property_id"] for x in na])

main()
