#!/bin/bash
# tools/baseline.sh [repo-dir] — run the repository's test suite (guard off) and compare with BASELINE.json's stable_pass list.
# Prints "BASELINE OK n/n" or the list of tests that no longer pass. Exit 0 iff all stable tests pass.
R="${1:-/repo}"
export GOFLAGS=-mod=mod GOPROXY=off GOSUMDB=off GOTOOLCHAIN=local
OUT=$(mktemp /dev/shm/baseline.XXXXXX)
(cd "$R" && go test -json -vet=off -count=1 -timeout 25m ./... 2>/dev/null) > "$OUT"
python3 - "$OUT" <<'PY'
import json,sys
passed=set()
for l in open(sys.argv[1]):
    try: e=json.loads(l)
    except Exception: continue
    if e.get("Action")=="pass" and e.get("Test"):
        passed.add(e["Package"]+"::"+e["Test"])
base=json.load(open("/root/.vp/BASELINE.json"))["stable_pass"]
missing=[t for t in base if t not in passed]
if missing:
    print("BASELINE FAIL: %d of %d stable tests did not pass:"%(len(missing),len(base)))
    for t in missing[:40]: print("  ",t)
    sys.exit(1)
print("BASELINE OK %d/%d"%(len(base),len(base)))
PY
rc=$?
rm -f "$OUT"
exit $rc
