#!/bin/bash
# tools/evalround.sh <Cxx> [N...] — confirm and evaluate the changes a sub-agent left in /tmp/mut5/<Cxx>/out (round 5); RESULT lines to stdout
C="$1"; shift; NS="${@:-1 2}"
for N in $NS; do
  [ -f /tmp/mut5/$C/out/m$N.diff ] || { echo "RESULT $C m$N: no diff"; continue; }
  /verif/tools/evalmutant.sh /tmp/mut5/$C/out $N $C quick
done
