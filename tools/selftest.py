#!/usr/bin/env python3
"""tools/selftest.py - implementation-dependent richness of the committed evidence (DESIGN §3 rule 5).
Run on the unchanged tree after the checks have written /verif/evidence/*.json. These minimums depend on
what the implementation does (pages rendered, branches taken, ...), so they are asserted HERE and never
by a registered check (a changed tree that refuses every paginated render still satisfies C02)."""
import json, sys, os
D = os.path.dirname(os.path.dirname(os.path.abspath(__file__)))
need = {
 "C01": [("counters.renders_refused_for_size", 100), ("distinct_sets.nontrivial", 1000)],
 "C02": [("counters.walks_with_3_or_more_pages", 1000), ("counters.walks_with_2_or_more_pages", 5000)],
 "C03": [("counters.requests_where_a_later_line_also_matched", 1000)],
 "C04": [("distinct_sets.states", 1000)],
 "C05": [("counters.histories_reentering_a_level", 1000), ("counters.histories_ended_by_refused_value", 100)],
 "C06": [("counters.executions_branch_taken", 1000), ("counters.executions_with_reserved_index_requested", 1000)],
 "C07": [("distinct_sets.states", 500)],
 "C08": [("counters.app_configs_explored_to_fixpoint", 20), ("distinct_sets.states", 3000)],
 "C09": [("distinct_sets.states", 50000)],
 "C10": [("distinct_sets.states", 10000)],
 "C11": [("distinct_sets.states", 1000)],
 "C12": [("counters.crash_points_partial", 1000), ("counters.crash_points_before", 50), ("counters.crash_points_after", 50)],
 "C13": [("counters.runs_with_2_faults", 10000), ("counters.runs_with_1_faults", 1000)],
 "C14": [("counters.ints", 50000), ("counters.symbols", 1000), ("counters.programs", 10000)],
 "C15": [("counters.verdict_invalid", 100000), ("counters.verdict_valid", 10000)],
 "C16": [("programs", 100000), ("disagreements_checked", 100000)],
 "C17": [("distinct_sets.nontrivial", 100)],
 "C18": [("counters.executions_with_two_or_more_effective_switches", 1000)],
 "C19": [("distinct_sets.states", 10000), ("counters.race_pass_repetitions", 1)],
 "C20": [("counters.histories_continuing_past_an_end", 1000)],
}
bad = 0
for pid, reqs in sorted(need.items()):
    p = os.path.join(D, "evidence", pid + ".json")
    try:
        cov = json.load(open(p))["coverage"]
    except Exception as e:
        print(f"{pid}: evidence unreadable: {e}"); bad += 1; continue
    for path, minimum in reqs:
        v = cov
        for k in path.split("."):
            v = v.get(k, 0) if isinstance(v, dict) else 0
        ok = isinstance(v, (int, float)) and v >= minimum
        print(f"{pid}: {path} = {v} (min {minimum}) {'ok' if ok else 'TOO LOW'}")
        bad += 0 if ok else 1
sys.exit(1 if bad else 0)
