#!/bin/bash
# tools/evalmutant.sh <mutant-dir> <N> <Cxx> [tier]
# Confirms a seeded change (patch applies, existing suite still passes, its demo fails with and passes without it)
# in a scratch worktree, then runs the check for Cxx against it on /repo and undoes the patch. One summary line.
D="$1"; N="$2"; C="$3"; T="${4:-quick}"
export GOFLAGS=-mod=mod GOPROXY=off GOSUMDB=off GOTOOLCHAIN=local
P="$D/m$N.diff"; DEMO="$D/m${N}_demo/run.sh"
WT=$(mktemp -d /dev/shm/evwt.XXXXXX); rmdir "$WT"
git -C /repo worktree add --detach "$WT" HEAD -q || { echo "RESULT $C m$N: worktree failed"; exit 2; }
cleanup() { git -C /repo worktree remove --force "$WT" 2>/dev/null; rm -rf "$WT"; }
trap cleanup EXIT
if ! git -C "$WT" apply --check "$P" 2>/dev/null; then echo "RESULT $C m$N: PATCH-DOES-NOT-APPLY"; exit 1; fi
demo_clean="n/a"; demo_mut="n/a"
if [ -f "$DEMO" ]; then
  ( cd "$(dirname "$DEMO")" && timeout 600 bash ./run.sh "$WT" >/dev/null 2>&1 ); demo_clean=$?
fi
git -C "$WT" apply "$P"
base=$(/verif/tools/baseline.sh "$WT" 2>&1 | head -1)
if [ -f "$DEMO" ]; then
  ( cd "$(dirname "$DEMO")" && timeout 600 bash ./run.sh "$WT" >/dev/null 2>&1 ); demo_mut=$?
fi
cleanup; trap - EXIT
# now the check, against /repo itself
if [ -n "$(git -C /repo status --porcelain)" ]; then echo "RESULT $C m$N: /repo not clean, refusing"; exit 2; fi
git -C /repo apply "$P"
out=$(cd "${EVAL_VERIF:-/verif}" && timeout 3600 ./run.sh "$C" "$T" 2>&1)
rc=$?
git -C /repo checkout -- . ; git -C /repo clean -fdq -- . >/dev/null 2>&1
sigs=$(echo "$out" | grep -E "^  sig=" | sed 's/ occurrences.*//' | tr -d ' ' | tr '\n' ',' )
echo "RESULT $C m$N tier=$T: baseline=[$base] demo_without=$demo_clean demo_with=$demo_mut check_exit=$rc $sigs"
