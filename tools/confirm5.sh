#!/bin/bash
# tools/confirm5.sh <dir> <N> <Cxx> — phase 1 of evalmutant.sh only (scratch worktree: patch applies, suite passes, demo fails with / passes without); no check run
D="$1"; N="$2"; C="$3"
export GOFLAGS=-mod=mod GOPROXY=off GOSUMDB=off GOTOOLCHAIN=local
P="$D/m$N.diff"; DEMO="$D/m${N}_demo/run.sh"
WT=$(mktemp -d /dev/shm/evwt.XXXXXX); rmdir "$WT"
git -C /repo worktree add --detach "$WT" HEAD -q || { echo "CONFIRM $C m$N: worktree failed"; exit 2; }
cleanup() { git -C /repo worktree remove --force "$WT" 2>/dev/null; rm -rf "$WT"; }
trap cleanup EXIT
if ! git -C "$WT" apply --check "$P" 2>/dev/null; then echo "CONFIRM $C m$N: PATCH-DOES-NOT-APPLY"; exit 1; fi
demo_clean="n/a"; demo_mut="n/a"
[ -f "$DEMO" ] && { ( cd "$(dirname "$DEMO")" && timeout 900 bash ./run.sh "$WT" >/dev/null 2>&1 ); demo_clean=$?; }
git -C "$WT" apply "$P"
base=$(/verif/tools/baseline.sh "$WT" 2>&1 | head -1)
[ -f "$DEMO" ] && { ( cd "$(dirname "$DEMO")" && timeout 900 bash ./run.sh "$WT" >/dev/null 2>&1 ); demo_mut=$?; }
echo "CONFIRM $C m$N: baseline=[$base] demo_without=$demo_clean demo_with=$demo_mut"
