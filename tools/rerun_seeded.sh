#!/bin/bash
# tools/rerun_seeded.sh [pattern] - apply every kept seeded change to /repo in turn, run its property's quick check,
# expect exit 1 (VIOLATION), undo. Prints one line per change. /repo must be clean.
cd /verif
[ -n "$(git -C /repo status --porcelain)" ] && { echo "/repo not clean"; exit 2; }
for d in /verif/seeded/${1:-*}/; do
  n=$(basename "$d"); c=${n%%-*}
  cr=$(python3 -c "import json,sys;print(json.load(open(sys.argv[1])).get('check_run',''))" "$d/meta.json" 2>/dev/null); [ -n "$cr" ] && c=$cr
  if ! git -C /repo apply --check "$d/patch.diff" 2>/dev/null; then echo "$n: patch no longer applies"; continue; fi
  git -C /repo apply "$d/patch.diff"
  out=$(./run.sh "$c" quick 2>&1); rc=$?
  git -C /repo checkout -- . ; git -C /repo clean -fdq -- . >/dev/null 2>&1
  sigs=$(echo "$out" | grep -E "^  sig=" | sed 's/ occurrences.*//;s/^  sig=//' | tr '\n' ',' )
  echo "$n [$c]: exit=$rc $sigs"
done
