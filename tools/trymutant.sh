#!/bin/bash
# tools/trymutant.sh <patch-file> <Cxx> [tier]  — apply a patch to /repo, run the check, undo the patch. Prints the check's tail.
P="$1"; C="$2"; T="${3:-quick}"
cd /repo || exit 2
if ! git apply --check "$P" 2>/dev/null; then echo "patch does not apply"; exit 2; fi
git apply "$P"
cd /verif && ./run.sh "$C" "$T" 2>&1 | grep -E "VIOLATION|KNOWN|HARNESS|^$C" | cut -c1-300 | head -12
git -C /repo checkout -- . 
git -C /repo status --short | head -3
