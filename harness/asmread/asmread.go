// Package asmread is the harness's own reader of vise assembly (.vis) files, independent of package
// asm: it is used only to load the repository's example applications into the corpus, so that an
// assembler defect cannot leak into a VM/engine property.
package asmread

import (
	"fmt"
	"os"
	"path/filepath"
	"strconv"
	"strings"

	"verif/codec"
)

type batch struct{ kw, target, sel, label string }

func flush(out []codec.Ins, b []batch) []codec.Ins {
	if len(b) == 0 {
		return out
	}
	var post []codec.Ins
	for _, l := range b {
		switch l.kw {
		case "DOWN":
			out = append(out, codec.Ins{Op: codec.MOUT, Sym: l.label, Sel: l.sel})
			post = append(post, codec.Ins{Op: codec.INCMP, Sym: l.target, Sel: l.sel})
		case "UP":
			out = append(out, codec.Ins{Op: codec.MOUT, Sym: l.label, Sel: l.sel})
			post = append(post, codec.Ins{Op: codec.INCMP, Sym: "_", Sel: l.sel})
		case "NEXT":
			out = append(out, codec.Ins{Op: codec.MNEXT, Sym: l.label, Sel: l.sel})
			post = append(post, codec.Ins{Op: codec.INCMP, Sym: ">", Sel: l.sel})
		case "PREVIOUS":
			out = append(out, codec.Ins{Op: codec.MPREV, Sym: l.label, Sel: l.sel})
			post = append(post, codec.Ins{Op: codec.INCMP, Sym: "<", Sel: l.sel})
		}
	}
	out = append(out, codec.Ins{Op: codec.HALT})
	return append(out, post...)
}

// Parse reads one assembly source. It returns an error for anything it does not understand
// (e.g. flag names that need the preprocessor); such files are simply left out of the corpus.
func Parse(src string) ([]codec.Ins, error) {
	var out []codec.Ins
	var pend []batch
	for ln, line := range strings.Split(src, "\n") {
		if i := strings.Index(line, "#"); i >= 0 {
			line = line[:i]
		}
		f := strings.Fields(line)
		if len(f) == 0 {
			continue
		}
		num := func(s string) (uint32, error) {
			v, err := strconv.ParseUint(s, 10, 32)
			return uint32(v), err
		}
		need := func(n int) error {
			if len(f) != n+1 {
				return fmt.Errorf("line %d: %s takes %d arguments", ln+1, f[0], n)
			}
			return nil
		}
		switch f[0] {
		case "DOWN":
			if err := need(3); err != nil {
				return nil, err
			}
			pend = append(pend, batch{"DOWN", f[1], f[2], f[3]})
			continue
		case "UP", "NEXT", "PREVIOUS":
			if err := need(2); err != nil {
				return nil, err
			}
			pend = append(pend, batch{f[0], "", f[1], f[2]})
			continue
		}
		out = flush(out, pend)
		pend = nil
		switch f[0] {
		case "HALT", "MSINK":
			if err := need(0); err != nil {
				return nil, err
			}
			op := uint16(codec.HALT)
			if f[0] == "MSINK" {
				op = codec.MSINK
			}
			out = append(out, codec.Ins{Op: op})
		case "RELOAD", "MAP", "MOVE":
			if err := need(1); err != nil {
				return nil, err
			}
			op := map[string]uint16{"RELOAD": codec.RELOAD, "MAP": codec.MAP, "MOVE": codec.MOVE}[f[0]]
			out = append(out, codec.Ins{Op: op, Sym: f[1]})
		case "LOAD":
			if err := need(2); err != nil {
				return nil, err
			}
			n, err := num(f[2])
			if err != nil {
				return nil, fmt.Errorf("line %d: %v", ln+1, err)
			}
			out = append(out, codec.Ins{Op: codec.LOAD, Sym: f[1], N: n})
		case "INCMP", "MOUT", "MNEXT", "MPREV":
			if err := need(2); err != nil {
				return nil, err
			}
			op := map[string]uint16{"INCMP": codec.INCMP, "MOUT": codec.MOUT, "MNEXT": codec.MNEXT, "MPREV": codec.MPREV}[f[0]]
			out = append(out, codec.Ins{Op: op, Sym: f[1], Sel: f[2]})
		case "CATCH":
			if err := need(3); err != nil {
				return nil, err
			}
			n, err := num(f[2])
			if err != nil {
				return nil, fmt.Errorf("line %d: %v", ln+1, err)
			}
			m, err := num(f[3])
			if err != nil {
				return nil, fmt.Errorf("line %d: %v", ln+1, err)
			}
			out = append(out, codec.Ins{Op: codec.CATCH, Sym: f[1], N: n, Mode: m > 0})
		case "CROAK":
			if err := need(2); err != nil {
				return nil, err
			}
			n, err := num(f[1])
			if err != nil {
				return nil, fmt.Errorf("line %d: %v", ln+1, err)
			}
			m, err := num(f[2])
			if err != nil {
				return nil, fmt.Errorf("line %d: %v", ln+1, err)
			}
			out = append(out, codec.Ins{Op: codec.CROAK, N: n, Mode: m > 0})
		default:
			return nil, fmt.Errorf("line %d: unknown instruction %s", ln+1, f[0])
		}
	}
	return flush(out, pend), nil
}

// Example is one example application directory read from the repository.
type Example struct {
	Name  string
	Code  map[string][]codec.Ins
	Tpl   map[string]string
	Skips []string // files that could not be read, with reasons
}

// LoadDir reads every *.vis file of dir and the template files named after the nodes.
func LoadDir(dir string) (*Example, error) {
	files, err := filepath.Glob(filepath.Join(dir, "*.vis"))
	if err != nil || len(files) == 0 {
		return nil, fmt.Errorf("no .vis files in %s", dir)
	}
	ex := &Example{Name: filepath.Base(dir), Code: map[string][]codec.Ins{}, Tpl: map[string]string{}}
	for _, f := range files {
		b, err := os.ReadFile(f)
		if err != nil {
			return nil, err
		}
		node := strings.TrimSuffix(filepath.Base(f), ".vis")
		code, err := Parse(string(b))
		if err != nil {
			ex.Skips = append(ex.Skips, fmt.Sprintf("%s: %v", filepath.Base(f), err))
			continue
		}
		ex.Code[node] = code
		if t, err := os.ReadFile(filepath.Join(dir, node)); err == nil {
			ex.Tpl[node] = strings.TrimRight(string(t), "\n")
		}
	}
	return ex, nil
}
