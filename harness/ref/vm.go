package ref

import (
	"fmt"
	"sort"
	"strings"

	"git.defalsify.org/vise.git/lang"

	"verif/app"
	"verif/codec"
)

// VM is the reference interpreter of the documented semantics of the twelve instructions
// (doc/texinfo/*.texi; table in DESIGN.md §2.5). It works on the application AST (never on
// bytecode) and owns its own environment instance, so that external functions answer the same way
// as for the implementation as long as both make the same calls.
//
// Whatever the documentation leaves open makes the reference give up (Resp.Undefined): the caller
// then stops comparing that history.
type VM struct {
	App        *app.App
	Env        *app.Env
	Persisted  bool   // a fresh engine per request: the entry move is injected whenever no code is pending
	OutputSize uint32 // 0 = unlimited
	CacheSize  uint32
	// ResetOnEmpty: engine.Config.ResetOnEmptyInput ("purges cache and restart state execution at root on
	// empty input"): an empty input to a session that has a position drops the navigation stack, every
	// cache scope, the pending code and a TERMINATE block, and the entry node is executed afresh.
	ResetOnEmpty bool
	// First: the engine has a first function (engine.WithFirst) that answers with empty content and no flags:
	// it is called once per engine (persisted: every request) before anything else, but not for a refused
	// input and not for a blocked session; it has no effect on the session.
	First     bool
	firstDone bool

	Nav     Nav
	Scopes  []map[string]Entry // Scopes[0] is the global scope, Scopes[i] belongs to Nav.Stack[i-1]
	Flags   map[uint32]bool    // indices >= 6 only
	Lang    string             // current language code ("" = none)
	Pending []codec.Ins
	Last    string // last stored value (delivered with the final page of a graceful end)
	// lastLevel: index into Scopes of the scope the last stored value lives in; when that scope is left the
	// value is gone ("gone as soon as execution ascends above the level where it was loaded")
	lastLevel int

	mapped   map[string]string
	mapOrder []string
	menu     [][2]string // selector, label
	next     *[2]string
	prev     *[2]string
	msink    bool
	errPfx   string
	reading  bool
	matched  bool
	waiting  bool // a HALT was the last thing executed: page state is cleared when execution resumes
	started  bool
	loadFail bool // an external function failed at some point (the code never clears LOADFAIL)
	// afterCroak: symbols that were loaded when a CROAK was taken (their visibility afterwards is undocumented)
	afterCroak map[string]bool
	Ended      bool // long-lived engine after the session ended: further requests are not defined
}

type Entry struct {
	Val   string
	Limit uint16
}

type Resp struct {
	Undefined  bool   // the documentation does not define this request's outcome
	Why        string // reason for Undefined
	Err        bool   // Exec must report an error
	ErrOrCatch bool   // a failing instruction: reported as plain error or as a move to the catch node (not constrained which)
	Cont       bool
	Out        string
	OutKnown   bool     // Out is predicted (non-sink page, fits)
	FlushErr   bool     // rendering must fail (page longer than the output size / template needs an unmapped symbol)
	Calls      []string // external functions called, in order
	Steps      int      // instructions executed
	Blocked    bool     // TERMINATE was set when the request arrived
	Ends       string   // "" | graceful | abnormal
	Croaked    bool     // a CROAK was taken during this request
	OutAlt     string   // graceful end: the page without the last loaded value (documentation: value shown "instead" of a missing template)
	HaveAlt    bool
}

func NewVM(a *app.App, persisted bool) *VM {
	return &VM{App: a, Env: app.NewEnv(), Persisted: persisted, Scopes: []map[string]Entry{{}}, Flags: map[uint32]bool{}}
}

const (
	FlagTerminate = 6
	FlagLang      = 7
)

func (v *VM) visible(sym string) (int, bool) {
	for i, s := range v.Scopes {
		if _, ok := s[sym]; ok {
			return i, true
		}
	}
	return -1, false
}

func (v *VM) used() int {
	n := 0
	for _, s := range v.Scopes {
		for _, e := range s {
			n += len(e.Val)
		}
	}
	return n
}

func (v *VM) clearPage() {
	v.mapped = map[string]string{}
	v.mapOrder = nil
	v.menu = nil
	v.next, v.prev = nil, nil
	v.msink = false
}

// CacheKey renders the scopes canonically (for comparison with the implementation's cache).
func (v *VM) CacheKey() string {
	var sb strings.Builder
	for _, s := range v.Scopes {
		ks := make([]string, 0, len(s))
		for k := range s {
			ks = append(ks, k)
		}
		sort.Strings(ks)
		sb.WriteString("[")
		for _, k := range ks {
			fmt.Fprintf(&sb, "%s=%q/%d,", k, shortVal(s[k].Val), s[k].Limit)
		}
		sb.WriteString("]")
	}
	return sb.String()
}

func shortVal(s string) string {
	if len(s) > 40 {
		return fmt.Sprintf("%s..(%d bytes)", s[:16], len(s))
	}
	return s
}

func (v *VM) UserFlags() string {
	var l []int
	for k, on := range v.Flags {
		if on && k >= 8 {
			l = append(l, int(k))
		}
	}
	sort.Ints(l)
	return fmt.Sprint(l)
}

type stop int

const (
	goOn stop = iota
	halted
	failed // instruction failed: error or catch
	undefined
)

// knownLang is the reference's own knowledge of the codes used in the corpora (ISO 639-1, 639-3 and
// 639-2 bibliographic codes with their 639-3 equivalents); only codes outside this table are looked
// up through the library, so that a defect in the library's code table cannot hide from the reference.
var knownLang = map[string]string{"nor": "nor", "no": "nor", "eng": "eng", "en": "eng", "swa": "swa", "sw": "swa", "swh": "swh", "fre": "fra", "fra": "fra", "fr": "fra", "ger": "deu", "deu": "deu", "de": "deu"}
var knownBad = map[string]bool{"xx": true, "norsk": true, "": true, "n0r": true}

func validLang(code string) (string, bool) {
	if c, ok := knownLang[code]; ok {
		return c, true
	}
	if knownBad[code] {
		return "", false
	}
	l, err := lang.LanguageFromCode(code)
	if err != nil {
		return "", false
	}
	return l.Code, true
}

// call runs an external function in the reference environment.
func (v *VM) call(sym string, input []byte, r *Resp) (content string, ok bool, undefinedWhy string) {
	f, have := v.App.Funcs[sym]
	if !have {
		if _, st := v.App.Static[sym]; st {
			f, have = v.App.StaticFunc(sym), true
		}
	}
	if !have {
		return "", false, "no external function " + sym
	}
	r.Calls = append(r.Calls, sym)
	v.Env.Counts[sym]++
	res, err := f(v.Env, sym, input, v.Lang)
	if err != nil {
		v.loadFail = true
		return "", false, ""
	}
	for _, fl := range res.FlagReset {
		if fl >= 6 {
			v.Flags[fl] = false
		}
	}
	for _, fl := range res.FlagSet {
		if fl >= 6 {
			v.Flags[fl] = true
		}
	}
	if v.Flags[FlagLang] {
		if res.Content == "" {
			return "", false, "empty language code (treated as reset by the code; not covered by the statement)"
		}
		if c, ok := validLang(res.Content); ok {
			v.Lang = c
		}
		v.Flags[FlagLang] = false
	}
	return res.Content, true, ""
}

func (v *VM) move(target string) (NavResult, bool) {
	res, idxFree := v.Nav.Move(target)
	if res != NavOK {
		return res, idxFree
	}
	// keep one scope per stack element
	for len(v.Scopes) > len(v.Nav.Stack)+1 {
		v.Scopes = v.Scopes[:len(v.Scopes)-1]
	}
	if v.lastLevel >= len(v.Scopes) {
		v.Last = ""
	}
	for len(v.Scopes) < len(v.Nav.Stack)+1 {
		v.Scopes = append(v.Scopes, map[string]Entry{})
	}
	return res, idxFree
}

// Request serves one client request.
func (v *VM) Request(input []byte) (r Resp) {
	if v.Ended && !v.Persisted {
		return Resp{Undefined: true, Why: "long-lived engine used after the session ended"}
	}
	if v.First && v.ResetOnEmpty {
		return Resp{Undefined: true, Why: "first function combined with ResetOnEmptyInput"}
	}
	if v.ResetOnEmpty && len(input) == 0 && len(v.Nav.Stack) > 0 {
		v.Nav = Nav{}
		v.Scopes = []map[string]Entry{{}}
		delete(v.Flags, FlagTerminate)
		v.Pending = []codec.Ins{{Op: codec.MOVE, Sym: v.App.Root}}
		v.reading, v.matched, v.waiting = false, false, true
		v.afterCroak = nil
	}
	if v.Flags[FlagTerminate] {
		// nothing runs, no output, stop
		r.Blocked = true
		r.Cont = false
		r.OutKnown = true
		return r
	}
	if len(v.Pending) == 0 {
		if v.Persisted || !v.started {
			v.Pending = []codec.Ins{{Op: codec.MOVE, Sym: v.App.Root}}
		} else {
			return Resp{Undefined: true, Why: "long-lived engine without pending code"}
		}
	}
	v.started = true
	if len(input) > 255 {
		r.Err = true
		r.Cont = true
		return r
	}
	if len(input) > 0 && !validInput(input) {
		r.Err = true
		r.Cont = true
		return r
	}
	if v.First && (v.Persisted || !v.firstDone) {
		v.firstDone = true
		r.Calls = append(r.Calls, "_first")
		r.Steps += 2
	}
	v.matched = false
	lastHalt := false
	for {
		if v.Flags[FlagTerminate] {
			v.Pending = nil
			r.Cont = false
			r.Ends = "abnormal"
			// the terminating request itself may or may not print the current page: not constrained
			return r
		}
		if len(v.Pending) == 0 {
			break
		}
		in := v.Pending[0]
		v.Pending = v.Pending[1:]
		r.Steps++
		if v.waiting {
			v.waiting = false
			v.clearPage()
			v.errPfx = ""
		}
		if v.mapped == nil {
			v.clearPage()
		}
		st, why := v.exec(in, input, &r)
		lastHalt = false
		switch st {
		case undefined:
			return Resp{Undefined: true, Why: why}
		case halted:
			lastHalt = true
		case failed:
			// the request fails: reported as a plain error (pending code kept from here) or, once an
			// external function has failed, as a move to the catch node. Which one is not constrained
			// by the documentation; the reference gives up on the rest of this history.
			r.ErrOrCatch = true
			return r
		}
		if lastHalt {
			break
		}
		if len(v.Pending) == 0 {
			// out of code, last instruction was not HALT
			if !v.reading {
				v.Flags[FlagTerminate] = true
				r.Cont = false
				r.Ends = "abnormal"
				return r
			}
			if v.Nav.Top() == "_catch" || v.Nav.Top() == "" {
				return Resp{Undefined: true, Why: "unmatched input at the catch node"}
			}
			v.errPfx = fmt.Sprintf("invalid input: '%s'", input)
			v.Pending = []codec.Ins{{Op: codec.MOVE, Sym: "_catch"}}
		}
	}
	// stopped at HALT
	r.Cont = len(v.Pending) > 0
	v.renderPage(&r)
	if !r.Cont {
		// graceful end: the final output is the page followed by the last loaded value
		r.Ends = "graceful"
		if r.OutKnown && r.FlushErr && v.Last != "" {
			// the page cannot be rendered but there is a last value: the code shows the value alone
			// (documentation: the value is displayed "instead" of a missing template); an error is fine, too
			r.OutAlt, r.HaveAlt = v.Last, true
		}
		if r.OutKnown && !r.FlushErr {
			r.OutAlt = r.Out
			r.HaveAlt = r.Out != ""
			r.Out += v.Last
			if v.OutputSize > 0 && len(r.Out) > int(v.OutputSize) {
				r.Out = ""
				r.FlushErr = true
			}
		}
		v.Last = ""
		v.Nav = Nav{}
		v.Scopes = []map[string]Entry{{}}
		for k := range v.Flags {
			if k < 8 {
				delete(v.Flags, k)
			}
		}
		v.reading, v.matched, v.waiting = false, false, true
		v.Ended = true
	}
	return r
}

func validInput(in []byte) bool {
	// vm/input.go: ^\+?[a-zA-Z0-9].*$  ('.' does not match a newline, '$' only at the very end)
	i := 0
	if len(in) > 0 && in[0] == '+' {
		i = 1
	}
	if i >= len(in) {
		return false
	}
	c := in[i]
	if !(c >= 'a' && c <= 'z' || c >= 'A' && c <= 'Z' || c >= '0' && c <= '9') {
		return false
	}
	for _, b := range in[i+1:] {
		if b == '\n' {
			return false
		}
	}
	return true
}

func (v *VM) code(node string) ([]codec.Ins, bool) {
	n, ok := v.App.Nodes[node]
	if !ok {
		return nil, false
	}
	return n.Code, true
}

func (v *VM) doMove(target string, replace bool, keepPage bool) (stop, string) {
	if target == v.Nav.Top() && target != "" {
		return undefined, "move onto the current node (ill-formed application)"
	}
	res, idxFree := v.move(target)
	switch res {
	case NavFailUndefined:
		return undefined, "'_' at the entry node: fails, position afterwards not documented"
	case NavFail:
		return failed, ""
	}
	if idxFree && v.Nav.Idx != 0 {
		return undefined, "'^' at the entry node on a page > 0"
	}
	c, ok := v.code(v.Nav.Top())
	if !ok {
		return undefined, "move to a node without code: " + v.Nav.Top()
	}
	if replace {
		v.Pending = append([]codec.Ins(nil), c...)
	} else {
		v.Pending = append(v.Pending, c...)
	}
	if !keepPage {
		v.clearPage()
	}
	return goOn, ""
}

func (v *VM) exec(in codec.Ins, input []byte, r *Resp) (stop, string) {
	switch in.Op {
	case codec.HALT:
		v.waiting = true
		return halted, ""
	case codec.LOAD:
		if v.afterCroak[in.Sym] {
			return undefined, "LOAD of a symbol that was loaded when a CROAK was taken (purge not documented)"
		}
		if _, ok := v.visible(in.Sym); ok {
			return goOn, ""
		}
		if in.N > 65535 {
			return undefined, "declared size above 65535"
		}
		val, ok, why := v.call(in.Sym, input, r)
		if why != "" {
			return undefined, why
		}
		if !ok {
			return failed, ""
		}
		if in.N > 0 && len(val) > int(in.N) {
			return failed, ""
		}
		if v.CacheSize > 0 && v.used()+len(val) > int(v.CacheSize) {
			return failed, ""
		}
		v.Scopes[len(v.Scopes)-1][in.Sym] = Entry{Val: val, Limit: uint16(in.N)}
		v.Last, v.lastLevel = val, len(v.Scopes)-1
		return goOn, ""
	case codec.RELOAD:
		if v.afterCroak[in.Sym] {
			return undefined, "RELOAD of a symbol that was loaded when a CROAK was taken (purge not documented)"
		}
		lvl, ok := v.visible(in.Sym)
		if !ok {
			return undefined, "RELOAD of a symbol that is not visible"
		}
		val, ok, why := v.call(in.Sym, input, r)
		if why != "" {
			return undefined, why
		}
		if !ok {
			return failed, ""
		}
		e := v.Scopes[lvl][in.Sym]
		fits := e.Limit == 0 || len(val) <= int(e.Limit)
		if fits && v.CacheSize > 0 && v.used()-len(e.Val)+len(val) > int(v.CacheSize) {
			fits = false
		}
		if fits {
			e.Val = val
			v.Scopes[lvl][in.Sym] = e
		}
		return v.mapSym(in.Sym)
	case codec.MAP:
		if v.afterCroak[in.Sym] {
			return undefined, "MAP of a symbol that was loaded when a CROAK was taken (purge not documented)"
		}
		if _, ok := v.visible(in.Sym); !ok {
			return undefined, "MAP of a symbol that is not visible"
		}
		return v.mapSym(in.Sym)
	case codec.MOVE:
		return v.doMove(in.Sym, false, false)
	case codec.INCMP:
		if v.matched {
			return goOn, ""
		}
		v.reading = true
		if in.Sel != string(input) && in.Sel != "*" {
			return goOn, ""
		}
		if in.Sym == "<" && v.Nav.Idx == 0 {
			// counts as no match; later INCMP lines are ignored
			v.matched = true
			v.reading = true
			return goOn, ""
		}
		v.matched = true
		v.reading = false
		st, why := v.doMove(in.Sym, false, false)
		return st, why
	case codec.CATCH:
		if in.N < 6 {
			return undefined, "CATCH on an internal flag"
		}
		if v.Flags[in.N] != in.Mode {
			return goOn, ""
		}
		if len(v.menu) > 0 || v.next != nil || v.prev != nil || v.msink {
			return undefined, "taken CATCH with menu state (not documented whether it survives)"
		}
		// a mapping lasts "only until the next move", and a taken CATCH is a move
		return v.doMove(in.Sym, true, len(v.mapOrder) == 0)
	case codec.CROAK:
		if in.N < 6 {
			return undefined, "CROAK on an internal flag"
		}
		if v.Flags[in.N] != in.Mode {
			return goOn, ""
		}
		// abandon the pending bytecode; the out-of-code rule then terminates the session or, while
		// input is being handled, goes to the catch node. What happens to the symbol cache is not
		// documented: callers that compare caches must stop at r.Croaked.
		v.Pending = nil
		v.clearPage()
		r.Croaked = true
		// the code purges loaded symbols here; the documentation does not say so. Whether a symbol loaded
		// before the croak is still visible afterwards is therefore unknown to the reference.
		if v.afterCroak == nil {
			v.afterCroak = map[string]bool{}
		}
		for _, sc := range v.Scopes {
			for k := range sc {
				v.afterCroak[k] = true
			}
		}
		return goOn, ""
	case codec.MOUT:
		v.menu = append(v.menu, [2]string{in.Sel, in.Sym})
	case codec.MNEXT:
		v.next = &[2]string{in.Sel, in.Sym}
	case codec.MPREV:
		v.prev = &[2]string{in.Sel, in.Sym}
	case codec.MSINK:
		v.msink = true
	}
	return goOn, ""
}

func (v *VM) mapSym(sym string) (stop, string) {
	lvl, _ := v.visible(sym)
	e := v.Scopes[lvl][sym]
	if e.Limit == 0 {
		for _, m := range v.mapOrder {
			if l2, ok := v.visible(m); ok && v.Scopes[l2][m].Limit == 0 && m != sym {
				return failed, ""
			}
		}
	}
	if _, ok := v.mapped[sym]; !ok {
		v.mapOrder = append(v.mapOrder, sym)
	}
	v.mapped[sym] = e.Val
	return goOn, ""
}

func (v *VM) hasSink() bool {
	if v.msink {
		return true
	}
	for _, m := range v.mapOrder {
		if l, ok := v.visible(m); ok && v.Scopes[l][m].Limit == 0 {
			return true
		}
	}
	return false
}

func (v *VM) label(sym string) string {
	if v.Lang != "" {
		if m, ok := v.App.MenusLang[v.Lang]; ok {
			if t, ok := m[sym]; ok {
				return t
			}
		}
	}
	if t, ok := v.App.Menus[sym]; ok {
		return t
	}
	return sym
}

// renderPage predicts the page of the current node for non-sink pages.
func (v *VM) renderPage(r *Resp) {
	node, ok := v.App.Nodes[v.Nav.Top()]
	if !ok {
		r.OutKnown = false
		return
	}
	tpl := node.Tpl
	if v.Lang != "" {
		if t, ok := node.TplLang[v.Lang]; ok {
			tpl = t
		}
	}
	out, ok := expand(tpl, v.mapped)
	if !ok {
		// the template needs a symbol that is not mapped on this page: rendering fails, paginated or not
		r.OutKnown = true
		r.FlushErr = true
		return
	}
	if v.hasSink() && v.OutputSize > 0 {
		return // pagination: C02's business
	}
	if v.Nav.Idx > 0 {
		return // lateral index on a page: rendering outcome depends on the page count
	}
	if v.errPfx != "" {
		if out == "" {
			out = v.errPfx
		} else {
			out = v.errPfx + "\n" + out
		}
	}
	var lines []string
	if !v.msink {
		for _, m := range v.menu {
			lines = append(lines, m[0]+":"+v.label(m[1]))
		}
	} else {
		return
	}
	if len(lines) > 0 {
		out += "\n" + strings.Join(lines, "\n")
	}
	r.OutKnown = true
	if v.OutputSize > 0 && len(out) > int(v.OutputSize) {
		r.FlushErr = true
		return
	}
	r.Out = out
}

// expand substitutes {{.sym}} placeholders; ok=false when a placeholder is not mapped.
func expand(tpl string, vals map[string]string) (string, bool) {
	var sb strings.Builder
	for {
		i := strings.Index(tpl, "{{.")
		if i < 0 {
			sb.WriteString(tpl)
			return sb.String(), true
		}
		j := strings.Index(tpl[i:], "}}")
		if j < 0 {
			return "", false
		}
		sb.WriteString(tpl[:i])
		key := tpl[i+3 : i+j]
		val, ok := vals[key]
		if !ok {
			return "", false
		}
		sb.WriteString(val)
		tpl = tpl[i+j+2:]
	}
}

// ValidLang exposes the language validation used by the reference.
func ValidLang(code string) (string, bool) { return validLang(code) }
