// Package ref holds the boring reference models the checks step in lockstep with the implementation.
package ref

import "strings"

// Nav is the navigation table of doc/texinfo/navigation.texi as a stack machine.
type Nav struct {
	Stack []string
	Idx   uint16
}

type NavResult int

const (
	NavOK            NavResult = iota
	NavFail                    // the move fails; position unchanged ('<' at index 0)
	NavFailUndefined           // the move fails and the documentation does not say where the session is afterwards ('_' at the entry node)
)

func (n *Nav) Clone() *Nav {
	return &Nav{Stack: append([]string(nil), n.Stack...), Idx: n.Idx}
}

func (n *Nav) Top() string {
	if len(n.Stack) == 0 {
		return ""
	}
	return n.Stack[len(n.Stack)-1]
}

func (n *Nav) Path() string { return strings.Join(n.Stack, "/") }

// Move applies one move target. idxFree reports that the page index after the move is not
// constrained by the documentation ('^' issued at the entry node itself).
func (n *Nav) Move(target string) (res NavResult, idxFree bool) {
	switch target {
	case "_":
		if len(n.Stack) <= 1 {
			return NavFailUndefined, false
		}
		n.Stack = n.Stack[:len(n.Stack)-1]
		n.Idx = 0
	case "^":
		if len(n.Stack) <= 1 {
			return NavOK, true
		}
		n.Stack = n.Stack[:1]
		n.Idx = 0
	case ".":
	case ">":
		n.Idx++
	case "<":
		if n.Idx == 0 {
			return NavFail, false
		}
		n.Idx--
	default:
		n.Stack = append(n.Stack, target)
		n.Idx = 0
	}
	return NavOK, false
}
