package ref

import (
	"encoding/json"
	"sort"
	"strconv"
	"strings"
)

// Reference model of the keyed store behind db.Db (C10, C11): a plain map plus the sticky context of
// a handle. It knows nothing about how a backend names its entries.

const (
	TUnknown    uint8 = 0
	TBin        uint8 = 1
	TMenu       uint8 = 2
	TTemplate   uint8 = 4
	TStaticLoad uint8 = 8
	TState      uint8 = 16
	TUserData   uint8 = 32

	kvReadOnly = TBin | TMenu | TTemplate | TStaticLoad
	kvLangTyps = TMenu | TTemplate | TStaticLoad
)

func TypName(t uint8) string {
	switch t {
	case TUnknown:
		return "UNKNOWN"
	case TBin:
		return "BIN"
	case TMenu:
		return "MENU"
	case TTemplate:
		return "TEMPLATE"
	case TStaticLoad:
		return "STATICLOAD"
	case TState:
		return "STATE"
	case TUserData:
		return "USERDATA"
	}
	return "T" + strconv.Itoa(int(t))
}

// Sessioned reports whether the session id is part of the identity of an entry of this type.
func Sessioned(t uint8) bool { return t >= TState }

// Translated reports whether the language is part of the identity of an entry of this type.
func Translated(t uint8) bool { return t&kvLangTyps != 0 }

// Bs is a byte string that survives JSON (arbitrary bytes; rendered as a Go-quoted ASCII literal).
type Bs string

func (b Bs) MarshalJSON() ([]byte, error) {
	q := strconv.QuoteToASCII(string(b))
	return json.Marshal(q[1 : len(q)-1])
}

func (b *Bs) UnmarshalJSON(d []byte) error {
	var s string
	if err := json.Unmarshal(d, &s); err != nil {
		return err
	}
	u, err := strconv.Unquote(`"` + s + `"`)
	if err != nil {
		return err
	}
	*b = Bs(u)
	return nil
}

// KVOp is one operation on a db.Db handle.
type KVOp struct {
	Op   string `json:"op"` // prefix | session | lang | lock | put | get | dump
	Typ  uint8  `json:"typ,omitempty"`
	Sess Bs     `json:"sess,omitempty"`
	Lang string `json:"lang,omitempty"` // ISO 639-3 code, "" = nil
	On   bool   `json:"on,omitempty"`
	Key  Bs     `json:"key,omitempty"`
	Val  Bs     `json:"val,omitempty"`
}

func (o KVOp) String() string {
	switch o.Op {
	case "prefix":
		return "SetPrefix(" + TypName(o.Typ) + ")"
	case "session":
		return "SetSession(" + strconv.QuoteToASCII(string(o.Sess)) + ")"
	case "lang":
		if o.Lang == "" {
			return "SetLanguage(nil)"
		}
		return "SetLanguage(" + o.Lang + ")"
	case "lock":
		if o.Typ == 0 {
			return "SetLock(0," + strconv.FormatBool(o.On) + ")"
		}
		return "SetLock(" + TypName(o.Typ) + "," + strconv.FormatBool(o.On) + ")"
	case "put":
		return "Put(" + strconv.QuoteToASCII(string(o.Key)) + "," + strconv.QuoteToASCII(string(o.Val)) + ")"
	case "get":
		return "Get(" + strconv.QuoteToASCII(string(o.Key)) + ")"
	case "dump":
		return "Dump(" + strconv.QuoteToASCII(string(o.Key)) + ")"
	}
	return o.Op
}

func OpsString(ops []KVOp) string {
	s := make([]string, len(ops))
	for i, o := range ops {
		s[i] = o.String()
	}
	return strings.Join(s, "; ")
}

// KV is the reference: context of one handle + the stored entries.
type KV struct {
	Pfx   uint8
	Sess  string
	Lang  string
	Lock  uint8
	Seal  bool
	Cells map[string]string
}

func NewKV() *KV {
	return &KV{Lock: kvReadOnly, Cells: map[string]string{}}
}

func (m *KV) Clone() *KV {
	n := *m
	n.Cells = make(map[string]string, len(m.Cells)+1)
	for k, v := range m.Cells {
		n.Cells[k] = v
	}
	return &n
}

// Cell identifies one stored entry: session only counts for sessioned types, language only for translated types.
type Cell struct {
	Typ  uint8
	Sess string
	Lang string
	Key  string
}

func NormCell(typ uint8, sess, lang, key string) Cell {
	if !Sessioned(typ) {
		sess = ""
	}
	if !Translated(typ) {
		lang = ""
	}
	return Cell{typ, sess, lang, key}
}

func (c Cell) id() string {
	var sb strings.Builder
	sb.Grow(len(c.Sess) + len(c.Lang) + len(c.Key) + 8)
	sb.WriteByte(c.Typ)
	sb.WriteByte(byte(len(c.Sess)))
	sb.WriteString(c.Sess)
	sb.WriteByte(byte(len(c.Lang)))
	sb.WriteString(c.Lang)
	sb.WriteString(c.Key)
	return sb.String()
}

func cellFromID(s string) Cell {
	var c Cell
	c.Typ = s[0]
	n := int(s[1])
	c.Sess = s[2 : 2+n]
	s = s[2+n:]
	n = int(s[0])
	c.Lang = s[1 : 1+n]
	c.Key = s[1+n:]
	return c
}

func (c Cell) String() string {
	s := TypName(c.Typ)
	if Sessioned(c.Typ) {
		s += " session=" + strconv.QuoteToASCII(c.Sess)
	}
	if Translated(c.Typ) {
		if c.Lang == "" {
			s += " lang=default"
		} else {
			s += " lang=" + c.Lang
		}
	}
	return s + " key=" + strconv.QuoteToASCII(c.Key)
}

// Cur is the cell the current context addresses for key (the write target).
func (m *KV) Cur(key string) Cell { return NormCell(m.Pfx, m.Sess, m.Lang, key) }

// Apply steps the reference by one operation (context setters, lock changes unless sealed, accepted Puts).
func (m *KV) Apply(o KVOp) {
	switch o.Op {
	case "prefix":
		m.Pfx = o.Typ
	case "session":
		m.Sess = string(o.Sess)
	case "lang":
		m.Lang = o.Lang
	case "lock":
		if m.Seal {
			return
		}
		if o.Typ == 0 {
			m.Lock |= kvReadOnly
			m.Seal = true
		} else if o.On {
			m.Lock |= o.Typ
		} else {
			m.Lock &^= o.Typ
		}
	case "put":
		if m.PutAllowed() {
			m.Cells[m.Cur(string(o.Key)).id()] = string(o.Val)
		}
	}
}

// NoEffect reports whether a context setter would leave the model context unchanged (symmetry reduction).
// Lock operations on a sealed handle are never reduced: that they are without effect is what is checked.
func (m *KV) NoEffect(o KVOp) bool {
	switch o.Op {
	case "prefix":
		return m.Pfx == o.Typ
	case "session":
		return m.Sess == string(o.Sess)
	case "lang":
		return m.Lang == o.Lang
	case "lock":
		if m.Seal || o.Typ == 0 {
			return false
		}
		return (m.Lock&o.Typ != 0) == o.On
	}
	return false
}

// Valid reports whether a data type is selected at all (Put/Get with DATATYPE_UNKNOWN must fail).
func (m *KV) Valid() bool { return m.Pfx != TUnknown }

// PutAllowed reports whether a Put in the current context must be accepted.
func (m *KV) PutAllowed() bool { return m.Valid() && m.Pfx&m.Lock == 0 }

// Lookup is the read rule: the translation if one exists, else the default-language entry.
func (m *KV) Lookup(typ uint8, sess, lang, key string) (string, bool) {
	c := NormCell(typ, sess, lang, key)
	if v, ok := m.Cells[c.id()]; ok {
		return v, true
	}
	if c.Lang != "" {
		c.Lang = ""
		v, ok := m.Cells[c.id()]
		return v, ok
	}
	return "", false
}

func (m *KV) Get(key string) (string, bool) { return m.Lookup(m.Pfx, m.Sess, m.Lang, key) }

// List returns the entries of (typ, sess) whose key starts with prefix; only meaningful for sessioned types.
func (m *KV) List(typ uint8, sess, prefix string) map[string]string {
	out := map[string]string{}
	for id, v := range m.Cells {
		c := cellFromID(id)
		if c.Typ == typ && c.Sess == sess && c.Lang == "" && strings.HasPrefix(c.Key, prefix) {
			out[c.Key] = v
		}
	}
	return out
}

// AllCells lists the stored cells in a fixed order.
func (m *KV) AllCells() []Cell {
	ids := make([]string, 0, len(m.Cells))
	for id := range m.Cells {
		ids = append(ids, id)
	}
	sort.Strings(ids)
	out := make([]Cell, len(ids))
	for i, id := range ids {
		out[i] = cellFromID(id)
	}
	return out
}

// CtxKey is the canonical form of the handle context.
func (m *KV) CtxKey() string {
	var sb strings.Builder
	sb.WriteByte(m.Pfx)
	sb.WriteByte(m.Lock)
	if m.Seal {
		sb.WriteByte(1)
	} else {
		sb.WriteByte(0)
	}
	sb.WriteByte(byte(len(m.Sess)))
	sb.WriteString(m.Sess)
	sb.WriteString(m.Lang)
	return sb.String()
}

// ContentKey is the canonical form of the stored entries.
func (m *KV) ContentKey() string {
	ids := make([]string, 0, len(m.Cells))
	for id := range m.Cells {
		ids = append(ids, id)
	}
	sort.Strings(ids)
	var sb strings.Builder
	for _, id := range ids {
		v := m.Cells[id]
		sb.WriteString(strconv.Itoa(len(id)))
		sb.WriteByte(':')
		sb.WriteString(id)
		sb.WriteString(strconv.Itoa(len(v)))
		sb.WriteByte(':')
		sb.WriteString(v)
	}
	return sb.String()
}

func (m *KV) Key() string { return m.CtxKey() + "\xfd" + m.ContentKey() }
