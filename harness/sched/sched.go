// Package sched is a cooperative scheduler for goroutine "threads": exactly one thread runs at a
// time, and at every yield point the explorer (mc.Chooser) decides which thread runs next. The
// enabled list is in canonical order - the running thread first if it can continue, then ascending
// ids - so choice 0 means "no pre-emption" and every other choice at a point where the running thread
// could have continued costs one pre-emption (deviation).
package sched

import (
	"fmt"

	"verif/mc"
)

type thread struct {
	id     int
	resume chan struct{}
	done   bool
}

type Sched struct {
	x       *mc.Chooser
	threads []*thread
	events  chan int // thread id that yielded (>=0) or finished (-(id+1))
	cur     int
	Trace   []int // thread chosen at every scheduling point
	Points  int
}

func New(x *mc.Chooser) *Sched { return &Sched{x: x, cur: -1} }

// Yield is called by the running thread at a scheduling point.
func (s *Sched) Yield(label string) {
	if s == nil || s.cur < 0 {
		return
	}
	t := s.threads[s.cur]
	s.events <- t.id
	<-t.resume
}

// Run executes the bodies as threads under the scheduler until all have finished.
func (s *Sched) Run(bodies []func()) {
	s.events = make(chan int)
	for i, b := range bodies {
		t := &thread{id: i, resume: make(chan struct{})}
		s.threads = append(s.threads, t)
		go func(t *thread, b func()) {
			<-t.resume
			defer func() { s.events <- -(t.id + 1) }()
			b()
		}(t, b)
	}
	for {
		var enabled []*thread
		curEnabled := false
		if s.cur >= 0 && !s.threads[s.cur].done {
			enabled = append(enabled, s.threads[s.cur])
			curEnabled = true
		}
		for _, t := range s.threads {
			if !t.done && !(curEnabled && t.id == s.cur) {
				enabled = append(enabled, t)
			}
		}
		if len(enabled) == 0 {
			break
		}
		idx := 0
		if len(enabled) > 1 {
			idx = s.x.Choose(len(enabled), curEnabled, fmt.Sprintf("sched%d", s.Points))
		}
		s.Points++
		next := enabled[idx]
		s.cur = next.id
		s.Trace = append(s.Trace, next.id)
		next.resume <- struct{}{}
		ev := <-s.events
		if ev < 0 {
			s.threads[-ev-1].done = true
		}
	}
	s.cur = -1
}
