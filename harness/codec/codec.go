// Package codec is the harness's own, independent implementation of the go-vise bytecode format:
// an encoder (used to build every application in the corpora, so that a defect in vm.NewLine or
// package asm can only ever surface in C14/C16) and a strict reference decoder (oracle of C14-C16).
//
// Format (doc/texinfo/instructions.texi, vm/vm.go): 2-byte big-endian opcode; a symbol is one
// length byte (1..255) followed by that many bytes; an integer is one width byte (1..4) followed
// by that many big-endian bytes; a match mode is one byte (0 = false, anything else = true).
package codec

import (
	"encoding/binary"
	"fmt"
	"strings"
)

const (
	NOOP   = 0
	CATCH  = 1
	CROAK  = 2
	LOAD   = 3
	RELOAD = 4
	MAP    = 5
	MOVE   = 6
	HALT   = 7
	INCMP  = 8
	MSINK  = 9
	MOUT   = 10
	MNEXT  = 11
	MPREV  = 12
)

var Names = []string{"NOOP", "CATCH", "CROAK", "LOAD", "RELOAD", "MAP", "MOVE", "HALT", "INCMP", "MSINK", "MOUT", "MNEXT", "MPREV"}

// Ins is one instruction. Which fields are meaningful depends on Op:
// CATCH Sym N Mode | CROAK N Mode | LOAD Sym N | RELOAD/MAP/MOVE Sym | INCMP/MOUT/MNEXT/MPREV Sym Sel | HALT, MSINK.
// For INCMP Sym is the target and Sel the selector; for MOUT/MNEXT/MPREV Sym is the label and Sel the selector.
type Ins struct {
	Op   uint16 `json:"op"`
	Sym  string `json:"sym,omitempty"`
	Sel  string `json:"sel,omitempty"`
	N    uint32 `json:"n,omitempty"`
	Mode bool   `json:"mode,omitempty"`
}

func (i Ins) String() string {
	m := 0
	if i.Mode {
		m = 1
	}
	switch i.Op {
	case CATCH:
		return fmt.Sprintf("CATCH %s %d %d", i.Sym, i.N, m)
	case CROAK:
		return fmt.Sprintf("CROAK %d %d", i.N, m)
	case LOAD:
		return fmt.Sprintf("LOAD %s %d", i.Sym, i.N)
	case RELOAD, MAP, MOVE:
		return fmt.Sprintf("%s %s", Names[i.Op], i.Sym)
	case HALT, MSINK:
		return Names[i.Op]
	case INCMP, MOUT, MNEXT, MPREV:
		return fmt.Sprintf("%s %s %s", Names[i.Op], i.Sym, i.Sel)
	}
	return fmt.Sprintf("?%d", i.Op)
}

// Listing renders a program the way the disassembler is documented to (one instruction per line).
func Listing(p []Ins) string {
	var sb strings.Builder
	for _, i := range p {
		sb.WriteString(i.String())
		sb.WriteByte('\n')
	}
	return sb.String()
}

func putSym(b []byte, s string) []byte {
	if len(s) == 0 || len(s) > 255 {
		panic(fmt.Sprintf("codec: symbol length %d not encodable", len(s)))
	}
	b = append(b, byte(len(s)))
	return append(b, s...)
}

// IntWidth is the minimal number of bytes for n (1 for 0).
func IntWidth(n uint32) int {
	switch {
	case n < 1<<8:
		return 1
	case n < 1<<16:
		return 2
	case n < 1<<24:
		return 3
	}
	return 4
}

func putInt(b []byte, n uint32) []byte {
	w := IntWidth(n)
	var t [4]byte
	binary.BigEndian.PutUint32(t[:], n)
	b = append(b, byte(w))
	return append(b, t[4-w:]...)
}

// Append encodes one instruction onto b.
func Append(b []byte, i Ins) []byte {
	b = append(b, byte(i.Op>>8), byte(i.Op))
	switch i.Op {
	case CATCH:
		b = putSym(b, i.Sym)
		b = putInt(b, i.N)
		b = append(b, boolByte(i.Mode))
	case CROAK:
		b = putInt(b, i.N)
		b = append(b, boolByte(i.Mode))
	case LOAD:
		b = putSym(b, i.Sym)
		b = putInt(b, i.N)
	case RELOAD, MAP, MOVE:
		b = putSym(b, i.Sym)
	case INCMP, MOUT, MNEXT, MPREV:
		b = putSym(b, i.Sym)
		b = putSym(b, i.Sel)
	case HALT, MSINK:
	default:
		panic("codec: bad opcode")
	}
	return b
}

func boolByte(v bool) byte {
	if v {
		return 1
	}
	return 0
}

// Encode encodes a program into a fresh, exact-capacity slice.
func Encode(p []Ins) []byte {
	var b []byte
	for _, i := range p {
		b = Append(b, i)
	}
	out := make([]byte, len(b))
	copy(out, b)
	return out
}

// Verdict of the strict decoder.
type Verdict int

const (
	Valid         Verdict = iota // a sequence of complete valid instructions
	Invalid                      // truncated instruction, undefined opcode (>12) or over-long integer (width > 4)
	Unconstrained                // shapes the property does not speak about: NOOP, zero-length symbol, zero-width integer
)

func (v Verdict) String() string { return [...]string{"valid", "invalid", "unconstrained"}[v] }

// Decoded is the result of strict decoding.
type Decoded struct {
	Verdict Verdict
	Prog    []Ins  // the complete valid instructions before the first problem
	Lens    []int  // encoded length of each instruction in Prog
	Reason  string // for Invalid/Unconstrained
	BadAt   int    // byte offset of the instruction that is not valid
}

type cursor struct {
	b   []byte
	pos int
}

var errTrunc = fmt.Errorf("truncated")
var errOverlong = fmt.Errorf("overlong-int")
var errZeroSym = fmt.Errorf("zero-length-symbol")
var errZeroInt = fmt.Errorf("zero-width-int")

func (c *cursor) sym() (string, error) {
	if c.pos >= len(c.b) {
		return "", errTrunc
	}
	l := int(c.b[c.pos])
	if l == 0 {
		return "", errZeroSym
	}
	if c.pos+1+l > len(c.b) {
		return "", errTrunc
	}
	s := string(c.b[c.pos+1 : c.pos+1+l])
	c.pos += 1 + l
	return s, nil
}

func (c *cursor) num() (uint32, error) {
	if c.pos >= len(c.b) {
		return 0, errTrunc
	}
	w := int(c.b[c.pos])
	if w == 0 {
		return 0, errZeroInt
	}
	if w > 4 {
		return 0, errOverlong
	}
	if c.pos+1+w > len(c.b) {
		return 0, errTrunc
	}
	var n uint32
	for _, x := range c.b[c.pos+1 : c.pos+1+w] {
		n = n<<8 | uint32(x)
	}
	c.pos += 1 + w
	return n, nil
}

func (c *cursor) mode() (bool, error) {
	if c.pos >= len(c.b) {
		return false, errTrunc
	}
	v := c.b[c.pos] > 0
	c.pos++
	return v, nil
}

// Decode is the strict reference decoder.
func Decode(b []byte) Decoded {
	var d Decoded
	c := &cursor{b: b}
	for c.pos < len(b) {
		start := c.pos
		fail := func(err error) Decoded {
			d.BadAt = start
			d.Reason = err.Error()
			switch err {
			case errZeroSym, errZeroInt:
				d.Verdict = Unconstrained
			default:
				d.Verdict = Invalid
			}
			return d
		}
		if len(b)-c.pos < 2 {
			return fail(errTrunc)
		}
		op := binary.BigEndian.Uint16(b[c.pos:])
		c.pos += 2
		if op > MPREV {
			d.BadAt, d.Reason, d.Verdict = start, "undefined-opcode", Invalid
			return d
		}
		if op == NOOP {
			d.BadAt, d.Reason, d.Verdict = start, "noop", Unconstrained
			return d
		}
		in := Ins{Op: op}
		var err error
		switch op {
		case CATCH:
			if in.Sym, err = c.sym(); err == nil {
				if in.N, err = c.num(); err == nil {
					in.Mode, err = c.mode()
				}
			}
		case CROAK:
			if in.N, err = c.num(); err == nil {
				in.Mode, err = c.mode()
			}
		case LOAD:
			if in.Sym, err = c.sym(); err == nil {
				in.N, err = c.num()
			}
		case RELOAD, MAP, MOVE:
			in.Sym, err = c.sym()
		case INCMP, MOUT, MNEXT, MPREV:
			if in.Sym, err = c.sym(); err == nil {
				in.Sel, err = c.sym()
			}
		}
		if err != nil {
			return fail(err)
		}
		d.Prog = append(d.Prog, in)
		d.Lens = append(d.Lens, c.pos-start)
	}
	d.Verdict = Valid
	return d
}
