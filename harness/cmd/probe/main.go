package main

import (
	"fmt"

	"git.defalsify.org/vise.git/engine"

	"verif/app"
	"verif/checks"
)

func main() {
	for _, first := range []bool{false, true} {
		a := checks.ProbeApp()
		a.First = first
		s := app.NewSession(a, engine.Config{SessionId: "s1"}, app.Persisted)
		s.Open = app.MemStore()
		s.FinishOnError = true
		for _, in := range []string{"", "1", "1", "0"} {
			r := s.Request([]byte(in))
			st, ca, _, err := s.Snapshot()
			fmt.Printf("first=%v in=%q -> %s finish=%q steps=%d calls=%v\n   stored: %v %v\n", first, in, r.Client(), r.FinishErr, r.Steps, r.Calls, err, app.StateKey(st, ca))
		}
	}
}
