package main

import (
	"context"
	"fmt"

	"git.defalsify.org/vise.git/cache"
	"git.defalsify.org/vise.git/db/mem"
	"git.defalsify.org/vise.git/persist"
	"git.defalsify.org/vise.git/state"
)

func main() {
	ctx := context.Background()
	store := mem.NewMemDb()
	store.Connect(ctx, "")
	// session B written by its own persister
	{
		st := state.NewState(0)
		ca := cache.NewCache()
		st.Down("root")
		ca.Push()
		st.Down("bb")
		ca.Add("own", "B", 0)
		p := persist.NewPersister(store).WithContent(st, ca)
		fmt.Println("save B", p.Save("B"))
	}
	for _, flush := range []bool{true, false} {
		st := state.NewState(0)
		ca := cache.NewCache()
		st.Down("root")
		ca.Push()
		st.Down("aa")
		ca.Add("secret", "A", 0)
		p := persist.NewPersister(store).WithContent(st, ca)
		if flush {
			p = p.WithFlush()
		}
		fmt.Println("save A", p.Save("A"))
		fmt.Println("load B", p.Load("B"))
		fmt.Printf("flush=%v after loading B: path=%v cache=%v sizes=%v use=%d\n", flush, p.State.ExecPath, p.Memory.Cache, p.Memory.Sizes, p.Memory.CacheUseSize)
	}
}
