// Command mkoverlay generates, from the CURRENT tree of the repository, the build overlay used by the
// crash-point check (C12): copies of db/fs/*.go whose imports of os and io/ioutil point at the shim
// packages, and the shim packages themselves as virtual packages inside the repository's module.
//
// usage: mkoverlay <repo-dir> <harness-dir> <out-dir>   (writes <out-dir>/overlay.json)
package main

import (
	"encoding/json"
	"fmt"
	"go/ast"
	"go/parser"
	"go/printer"
	"go/token"
	"os"
	"path/filepath"
	"strconv"
	"strings"
)

const shimBase = "git.defalsify.org/vise.git/verifshim/"

func main() {
	if len(os.Args) != 4 {
		fmt.Fprintln(os.Stderr, "usage: mkoverlay <repo-dir> <harness-dir> <out-dir>")
		os.Exit(2)
	}
	repo, harness, out := os.Args[1], os.Args[2], os.Args[3]
	if err := os.MkdirAll(out, 0o755); err != nil {
		fail(err)
	}
	replace := map[string]string{}
	files, _ := filepath.Glob(filepath.Join(repo, "db", "fs", "*.go"))
	n := 0
	for _, f := range files {
		if strings.HasSuffix(f, "_test.go") {
			continue
		}
		fset := token.NewFileSet()
		af, err := parser.ParseFile(fset, f, nil, parser.ParseComments)
		if err != nil {
			fail(err)
		}
		changed := false
		for _, im := range af.Imports {
			p, _ := strconv.Unquote(im.Path.Value)
			switch p {
			case "os":
				im.Path.Value = strconv.Quote(shimBase + "vos")
				if im.Name == nil {
					im.Name = ast.NewIdent("os")
				}
				changed = true
			case "io/ioutil":
				im.Path.Value = strconv.Quote(shimBase + "vioutil")
				if im.Name == nil {
					im.Name = ast.NewIdent("ioutil")
				}
				changed = true
			}
		}
		if !changed {
			continue
		}
		dst := filepath.Join(out, "fs_"+filepath.Base(f))
		w, err := os.Create(dst)
		if err != nil {
			fail(err)
		}
		if err := printer.Fprint(w, fset, af); err != nil {
			fail(err)
		}
		w.Close()
		replace[f] = dst
		n++
	}
	if n == 0 {
		fail(fmt.Errorf("no file of db/fs imports os or io/ioutil: nothing to instrument"))
	}
	replace[filepath.Join(repo, "verifshim", "vos", "vos.go")] = filepath.Join(harness, "_shimsrc", "vos", "vos.go")
	replace[filepath.Join(repo, "verifshim", "vioutil", "vioutil.go")] = filepath.Join(harness, "_shimsrc", "vioutil", "vioutil.go")
	b, _ := json.MarshalIndent(map[string]any{"Replace": replace}, "", " ")
	if err := os.WriteFile(filepath.Join(out, "overlay.json"), b, 0o644); err != nil {
		fail(err)
	}
	fmt.Printf("overlay: %d files of db/fs rewritten\n", n)
}

func fail(err error) {
	fmt.Fprintln(os.Stderr, "mkoverlay:", err)
	os.Exit(2)
}
