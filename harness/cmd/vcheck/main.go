// Command vcheck runs one property check of the go-vise verification harness.
package main

import (
	"io"
	"log"
	"os"
	"strconv"

	"verif/checks"
	"verif/mc"
)

func main() {
	log.SetOutput(io.Discard) // package asm logs through the standard logger
	if len(os.Args) >= 3 && os.Args[1] == "racepass" {
		n, _ := strconv.Atoi(os.Args[2])
		checks.C19FreeRun(n)
		return
	}
	if len(os.Args) >= 4 && os.Args[1] == "c19-solo" {
		// one session of one scenario served alone in this fresh process; transcript as JSON on stdout
		n, _ := strconv.Atoi(os.Args[3])
		os.Exit(checks.C19SoloOne(os.Args[2], n))
	}
	mc.Main(checks.All())
}
