// Command vcheck runs one property check of the go-vise verification harness.
package main

import (
	"io"
	"log"

	"verif/checks"
	"verif/mc"
)

func main() {
	log.SetOutput(io.Discard) // package asm logs through the standard logger
	mc.Main(checks.All())
}
