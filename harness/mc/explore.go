package mc

// Chooser is the choice-point interface of the stateless explorer: the harness body asks Choose at
// every point where the outside world could answer in more than one way. Alternative 0 is the default
// answer; with dev=true every other alternative costs one deviation.
type Chooser struct {
	prefix  []int
	Choices []int
	Ns      []int
	Dev     []bool
	Labels  []string
}

func (x *Chooser) Choose(n int, dev bool, label string) int {
	i := len(x.Choices)
	c := 0
	if i < len(x.prefix) {
		c = x.prefix[i]
		if c >= n {
			panic("mc: replay divergence: recorded choice out of range at point " + label)
		}
	}
	x.Choices = append(x.Choices, c)
	x.Ns = append(x.Ns, n)
	x.Dev = append(x.Dev, dev)
	x.Labels = append(x.Labels, label)
	return c
}

// Deviations counts the deviations taken so far.
func (x *Chooser) Deviations() int {
	n := 0
	for i, c := range x.Choices {
		if x.Dev[i] && c != 0 {
			n++
		}
	}
	return n
}

// Replay runs body once along the given choice vector (choices beyond it default to 0).
func Replay(choices []int, body func(x *Chooser)) *Chooser {
	x := &Chooser{prefix: choices}
	body(x)
	return x
}

// Explore enumerates every choice vector of body with at most maxDev deviations, depth-first,
// re-running body from scratch for each (stateless search). first, when non-nil, fixes the leading
// choices (used to shard a search tree over workers). stop is polled between executions.
func Explore(first []int, maxDev int, stop func() bool, body func(x *Chooser)) (executions int64) {
	var rec func(prefix []int)
	rec = func(prefix []int) {
		if stop != nil && stop() {
			return
		}
		x := &Chooser{prefix: prefix}
		body(x)
		executions++
		for i := len(prefix); i < len(x.Choices); i++ {
			devBefore := 0
			for j := 0; j < i; j++ {
				if x.Dev[j] && x.Choices[j] != 0 {
					devBefore++
				}
			}
			for alt := 1; alt < x.Ns[i]; alt++ {
				cost := devBefore
				if x.Dev[i] {
					cost++
				}
				if cost > maxDev {
					continue
				}
				np := make([]int, i+1)
				copy(np, x.Choices[:i])
				np[i] = alt
				rec(np)
			}
		}
	}
	rec(first)
	return
}
