// Package mc is the explorer core shared by all checks: work-item sharding over worker
// subprocesses, counters, distinct-outcome sets, violation records with signatures,
// known-findings matching, replay confirmation, evidence and replay-file writers.
//
// Every check is a deterministic enumeration: the check body walks a finite space of
// work items (configurations, histories, fault placements, schedules); Ctx.Mine()
// assigns each item to exactly one worker process. Nothing here samples: VERIF_SEED
// only rotates which worker gets which item and is recorded in the evidence.
package mc

import (
	"encoding/json"
	"fmt"
	"hash/fnv"
	"os"
	"os/exec"
	"path/filepath"
	"regexp"
	"runtime"
	"sort"
	"strconv"
	"strings"
	"time"
)

// Check is one registered property check.
type Check struct {
	ID          string
	Level       string // model_checking | exploration | fault_enumeration | translation_validation
	Rule        string // how cases are enumerated and what counts as distinct/non-trivial
	Assumptions []string
	// Run enumerates the work. It must be deterministic and must call c.Mine() once per work item.
	Run func(c *Ctx)
	// Replay re-executes one recorded witness without the explorer and returns the violation
	// signature it observes ("" if none). Used to confirm every violation before it is reported
	// and by `vcheck replay <file>`.
	Replay func(witness json.RawMessage) (sig string, msg string)
	// Workers overrides the number of worker processes (0 = all cores).
	Workers int
	// QuickBudget / ThoroughBudget are soft wall-clock budgets per worker; when hit the check
	// stops, reports exhaustive:false and still exits 0.
	QuickBudget, ThoroughBudget time.Duration
	// UnstableIsViolation: a violation that does not reproduce identically when its witness (a complete
	// schedule) is replayed is itself reported as a violation (signature same-witness-different-observations)
	// instead of as a harness problem. Only C19 sets it: there the harness owns every scheduling decision, so
	// differing observations under one schedule mean hidden shared mutable state in the library.
	UnstableIsViolation bool
	// MinItems is the driver-side vacuity floor: fewer generated work items than this means the
	// check itself is broken (exit 2).
	MinItems int64
}

type Violation struct {
	Property string          `json:"property"`
	Sig      string          `json:"sig"`
	Msg      string          `json:"msg"`
	Witness  json.RawMessage `json:"witness"`
	Item     int64           `json:"item"`
}

type Report struct {
	Counters   map[string]int64           `json:"counters"`
	Distinct   map[string][]uint64        `json:"distinct"`
	Violations []Violation                `json:"violations"`
	SigCounts  map[string]int64           `json:"sig_counts"`
	Samples    []any                      `json:"samples"`
	Notes      map[string]string          `json:"notes"`
	Vacuity    map[string]bool            `json:"vacuity"`
	Items      int64                      `json:"items"`
	TimedOut   bool                       `json:"timed_out"`
	Fatal      string                     `json:"fatal,omitempty"`
	distinct   map[string]map[uint64]bool `json:"-"`
}

// Ctx is handed to Check.Run in each worker.
type Ctx struct {
	Prop      string
	Tier      string
	Seed      int64
	Shard     int
	NShards   int
	deadline  time.Time
	rep       *Report
	item      int64
	maxPerSig int
	perSig    map[string]int
}

func (c *Ctx) Thorough() bool { return c.Tier == "thorough" }

// Mine counts one work item and reports whether this worker owns it.
func (c *Ctx) Mine() bool {
	i := c.item
	c.item++
	c.rep.Items = c.item
	return int((i+c.Seed)%int64(c.NShards)) == c.Shard
}

// Item returns the index of the current (last counted) work item.
func (c *Ctx) Item() int64 { return c.item - 1 }

func (c *Ctx) Count(name string, n int64) { c.rep.Counters[name] += n }

func Hash(parts ...string) uint64 {
	h := fnv.New64a()
	for _, p := range parts {
		h.Write([]byte(p))
		h.Write([]byte{0xfe})
	}
	return h.Sum64()
}

// Distinct records key in the named set and reports whether it was new (in this worker).
func (c *Ctx) Distinct(set string, parts ...string) bool {
	m := c.rep.distinct[set]
	if m == nil {
		m = make(map[uint64]bool)
		c.rep.distinct[set] = m
	}
	h := Hash(parts...)
	if m[h] {
		return false
	}
	m[h] = true
	return true
}

func (c *Ctx) DistinctLen(set string) int { return len(c.rep.distinct[set]) }

func (c *Ctx) Sample(v any) {
	if len(c.rep.Samples) < 4 {
		c.rep.Samples = append(c.rep.Samples, v)
	}
}

func (c *Ctx) Note(k, v string) { c.rep.Notes[k] = v }

// Vacuity records a driver-side vacuity condition (depends only on what the harness generates).
func (c *Ctx) Vacuity(name string, ok bool) {
	if prev, have := c.rep.Vacuity[name]; have {
		ok = ok || prev
	}
	c.rep.Vacuity[name] = ok
}

// Fail records a violation under a signature class. The first few witnesses per signature are kept.
func (c *Ctx) Fail(sig, msg string, witness any) {
	c.rep.SigCounts[sig]++
	if c.perSig[sig] >= c.maxPerSig {
		return
	}
	c.perSig[sig]++
	w, err := json.Marshal(witness)
	if err != nil {
		w, _ = json.Marshal(fmt.Sprintf("unmarshalable witness: %v", err))
	}
	c.rep.Violations = append(c.rep.Violations, Violation{Property: c.Prop, Sig: sig, Msg: msg, Witness: w, Item: c.Item()})
}

// TimeUp reports whether the soft budget is exhausted (and records that the run is not exhaustive).
func (c *Ctx) TimeUp() bool {
	if time.Now().After(c.deadline) {
		c.rep.TimedOut = true
		return true
	}
	return false
}

func newReport() *Report {
	return &Report{Counters: map[string]int64{}, Distinct: map[string][]uint64{}, SigCounts: map[string]int64{},
		Notes: map[string]string{}, Vacuity: map[string]bool{}, distinct: map[string]map[uint64]bool{}}
}

// ---------------------------------------------------------------------------------------------

type KnownFinding struct {
	Property string `json:"property"`
	Status   string `json:"status"` // open | fixed
	Sig      string `json:"sig"`
	What     string `json:"what"`
	Commit   string `json:"commit,omitempty"`
	Example  any    `json:"example,omitempty"`
}

type knownFile struct {
	Findings []KnownFinding `json:"findings"`
}

func verifDir() string {
	if d := os.Getenv("VERIF_DIR"); d != "" {
		return d
	}
	return "/verif"
}

func loadKnown() []KnownFinding {
	b, err := os.ReadFile(filepath.Join(verifDir(), "known_findings.json"))
	if err != nil {
		return nil
	}
	var kf knownFile
	if err := json.Unmarshal(b, &kf); err != nil {
		fmt.Fprintf(os.Stderr, "known_findings.json unreadable: %v\n", err)
		os.Exit(2)
	}
	return kf.Findings
}

var sanitizeRe = regexp.MustCompile(`[^A-Za-z0-9_.-]+`)

// Main dispatches: vcheck <ID> <tier> | vcheck <ID> <tier> --worker i n out | vcheck replay <file>
func Main(checks map[string]*Check) {
	args := os.Args[1:]
	if len(args) >= 2 && args[0] == "replay" {
		os.Exit(replayFile(checks, args[1]))
	}
	if len(args) < 2 {
		fmt.Fprintln(os.Stderr, "usage: vcheck <Cxx> <quick|thorough> | vcheck replay <file>")
		os.Exit(2)
	}
	ck := checks[args[0]]
	if ck == nil {
		fmt.Fprintf(os.Stderr, "unknown check %s\n", args[0])
		os.Exit(2)
	}
	tier := args[1]
	if tier != "quick" && tier != "thorough" {
		fmt.Fprintln(os.Stderr, "tier must be quick or thorough")
		os.Exit(2)
	}
	seed, _ := strconv.ParseInt(os.Getenv("VERIF_SEED"), 10, 64)
	if seed < 0 {
		seed = -seed
	}
	if len(args) >= 6 && args[2] == "--worker" {
		i, _ := strconv.Atoi(args[3])
		n, _ := strconv.Atoi(args[4])
		runWorker(ck, tier, seed, i, n, args[5])
		return
	}
	os.Exit(coordinate(ck, tier, seed))
}

func budget(ck *Check, tier string) time.Duration {
	b := ck.QuickBudget
	if tier == "thorough" {
		b = ck.ThoroughBudget
	}
	if b == 0 {
		if tier == "thorough" {
			b = 40 * time.Minute
		} else {
			b = 6 * time.Minute
		}
	}
	if s := os.Getenv("VERIF_BUDGET_S"); s != "" {
		if v, err := strconv.Atoi(s); err == nil {
			b = time.Duration(v) * time.Second
		}
	}
	return b
}

func runWorker(ck *Check, tier string, seed int64, i, n int, out string) {
	rep := newReport()
	c := &Ctx{Prop: ck.ID, Tier: tier, Seed: seed, Shard: i, NShards: n, rep: rep,
		deadline: time.Now().Add(budget(ck, tier)), maxPerSig: 3, perSig: map[string]int{}}
	func() {
		defer func() {
			if r := recover(); r != nil {
				buf := make([]byte, 1<<14)
				buf = buf[:runtime.Stack(buf, false)]
				rep.Fatal = fmt.Sprintf("harness panic in worker %d at item %d: %v\n%s", i, c.item, r, buf)
			}
		}()
		ck.Run(c)
	}()
	for k, m := range rep.distinct {
		l := make([]uint64, 0, len(m))
		for h := range m {
			l = append(l, h)
		}
		rep.Distinct[k] = l
	}
	b, err := json.Marshal(rep)
	if err != nil {
		fmt.Fprintf(os.Stderr, "worker marshal: %v\n", err)
		os.Exit(2)
	}
	if err := os.WriteFile(out, b, 0o644); err != nil {
		fmt.Fprintf(os.Stderr, "worker write: %v\n", err)
		os.Exit(2)
	}
}

func coordinate(ck *Check, tier string, seed int64) int {
	start := time.Now()
	n := ck.Workers
	if n <= 0 {
		n = runtime.NumCPU()
		if n > 16 {
			n = 16
		}
	}
	if s := os.Getenv("VERIF_WORKERS"); s != "" {
		if v, err := strconv.Atoi(s); err == nil && v > 0 {
			n = v
		}
	}
	tmp, err := os.MkdirTemp(scratchBase(), "vcheck-"+ck.ID+"-")
	if err != nil {
		fmt.Fprintf(os.Stderr, "mkdtemp: %v\n", err)
		return 2
	}
	defer os.RemoveAll(tmp)
	defer os.RemoveAll(filepath.Join(scratchBase(), fmt.Sprintf("vcheck-solo-%d", os.Getpid())))
	self, _ := os.Executable()
	type res struct {
		i   int
		err error
		out []byte
	}
	ch := make(chan res, n)
	for i := 0; i < n; i++ {
		go func(i int) {
			cmd := exec.Command(self, ck.ID, tier, "--worker", strconv.Itoa(i), strconv.Itoa(n), filepath.Join(tmp, fmt.Sprintf("w%d.json", i)))
			cmd.Env = append(os.Environ(), "GOMAXPROCS=2", "VERIF_SCRATCH="+filepath.Join(tmp, fmt.Sprintf("s%d", i)))
			out, err := cmd.CombinedOutput()
			ch <- res{i, err, out}
		}(i)
	}
	merged := newReport()
	var fatals []string
	for k := 0; k < n; k++ {
		r := <-ch
		b, rerr := os.ReadFile(filepath.Join(tmp, fmt.Sprintf("w%d.json", r.i)))
		if rerr != nil {
			tail := string(r.out)
			if len(tail) > 6000 {
				tail = tail[:3000] + "\n...\n" + tail[len(tail)-3000:]
			}
			fatals = append(fatals, fmt.Sprintf("worker %d died without a report (%v):\n%s", r.i, r.err, tail))
			continue
		}
		var rep Report
		if err := json.Unmarshal(b, &rep); err != nil {
			fatals = append(fatals, fmt.Sprintf("worker %d report unreadable: %v", r.i, err))
			continue
		}
		if rep.Fatal != "" {
			fatals = append(fatals, rep.Fatal)
		}
		for k, v := range rep.Counters {
			merged.Counters[k] += v
		}
		for k, v := range rep.SigCounts {
			merged.SigCounts[k] += v
		}
		for k, l := range rep.Distinct {
			m := merged.distinct[k]
			if m == nil {
				m = map[uint64]bool{}
				merged.distinct[k] = m
			}
			for _, h := range l {
				m[h] = true
			}
		}
		for k, v := range rep.Notes {
			merged.Notes[k] = v
		}
		for k, v := range rep.Vacuity {
			merged.Vacuity[k] = merged.Vacuity[k] || v
		}
		merged.Violations = append(merged.Violations, rep.Violations...)
		if r.i == int(seed%int64(n)) || len(merged.Samples) < 3 {
			for _, s := range rep.Samples {
				if len(merged.Samples) < 8 {
					merged.Samples = append(merged.Samples, s)
				}
			}
		}
		if rep.Items > merged.Items {
			merged.Items = rep.Items
		}
		merged.TimedOut = merged.TimedOut || rep.TimedOut
	}
	if len(fatals) > 0 {
		for _, f := range fatals {
			fmt.Fprintln(os.Stderr, "HARNESS-ERROR:", f)
		}
		return 2
	}
	sort.SliceStable(merged.Violations, func(i, j int) bool {
		if merged.Violations[i].Sig != merged.Violations[j].Sig {
			return merged.Violations[i].Sig < merged.Violations[j].Sig
		}
		return merged.Violations[i].Item < merged.Violations[j].Item
	})

	known := loadKnown()
	openSig := map[string]KnownFinding{}
	for _, k := range known {
		if k.Property == ck.ID && k.Status == "open" {
			openSig[k.Sig] = k
		}
	}
	exit := 0
	seenKnown := map[string]bool{}
	written := map[string]int{}
	var unknownSigs []string
	os.MkdirAll(filepath.Join(verifDir(), "replays"), 0o755)
	if old, _ := filepath.Glob(filepath.Join(verifDir(), "replays", ck.ID+"-*.json")); len(old) > 0 {
		for _, f := range old {
			os.Remove(f)
		}
	}
	for _, v := range merged.Violations {
		if kf, ok := openSig[v.Sig]; ok {
			if !seenKnown[v.Sig] {
				seenKnown[v.Sig] = true
				fmt.Printf("KNOWN-FINDING: property=%s %s [sig=%s, %d occurrence(s) in this run]\n", ck.ID, kf.What, v.Sig, merged.SigCounts[v.Sig])
			}
			continue
		}
		if written[v.Sig] >= 1 {
			continue
		}
		// confirm by replaying the artefact twice
		if ck.Replay != nil {
			s1, _ := safeReplay(ck, v.Witness)
			s2, _ := safeReplay(ck, v.Witness)
			if s1 != v.Sig || s2 != v.Sig {
				// The violation was observed by a deterministic harness but its witness alone does not
				// reproduce it (identically): what was observed depended on something that outlives one
				// case - process-wide state in the library (a pooled buffer, a memoised pointer, a package-level
				// scratch variable). That is a finding about the library, not a reason to discard the
				// observation: it is reported under its own signature.
				if ck.UnstableIsViolation {
					v.Msg = fmt.Sprintf("the same schedule gave different observations when replayed (first run: %s; replays: %q, %q): hidden shared mutable state. First observation: %s", v.Sig, s1, s2, v.Msg)
					v.Sig = "same-witness-different-observations"
				} else {
					v.Msg = fmt.Sprintf("observed in the run but not reproduced identically from its witness alone (replays gave %q, %q): the outcome depends on earlier cases in the same process, i.e. on state the library keeps between calls. Observation: %s", s1, s2, v.Msg)
					v.Sig = "unstable-" + v.Sig
				}
				merged.SigCounts[v.Sig]++
				if written[v.Sig] >= 1 {
					continue
				}
			}
		}
		written[v.Sig]++
		name := fmt.Sprintf("%s-%s.json", ck.ID, sanitizeRe.ReplaceAllString(v.Sig, "_"))
		if len(name) > 120 {
			name = name[:100] + fmt.Sprintf("-%x.json", Hash(v.Sig))
		}
		path := filepath.Join(verifDir(), "replays", name)
		b, _ := json.MarshalIndent(v, "", " ")
		os.WriteFile(path, b, 0o644)
		fmt.Printf("VIOLATION property=%s replay=%s\n", ck.ID, path)
		fmt.Printf("  sig=%s occurrences=%d\n  %s\n", v.Sig, merged.SigCounts[v.Sig], v.Msg)
		unknownSigs = append(unknownSigs, v.Sig)
		if exit == 0 {
			exit = 1
		}
	}
	// driver-side vacuity
	vacOK := true
	for k, ok := range merged.Vacuity {
		if !ok {
			vacOK = false
			fmt.Fprintf(os.Stderr, "HARNESS-ERROR: driver-side vacuity condition %q not met\n", k)
		}
	}
	if merged.Items < ck.MinItems {
		vacOK = false
		fmt.Fprintf(os.Stderr, "HARNESS-ERROR: only %d work items generated, expected at least %d\n", merged.Items, ck.MinItems)
	}
	if !vacOK && exit == 0 {
		exit = 2
	}
	writeEvidence(ck, tier, seed, merged, time.Since(start), len(unknownSigs), seenKnown, n)
	states := len(merged.distinct["states"])
	fmt.Printf("%s %s: items=%d evaluations=%d transitions=%d states=%d distinct_nontrivial=%d exhaustive=%v violations=%d known=%d wall=%.1fs\n",
		ck.ID, tier, merged.Items, merged.Counters["evaluations"], merged.Counters["transitions"], states,
		len(merged.distinct["nontrivial"]), !merged.TimedOut, len(unknownSigs), len(seenKnown), time.Since(start).Seconds())
	return exit
}

func safeReplay(ck *Check, w json.RawMessage) (sig, msg string) {
	defer func() {
		if r := recover(); r != nil {
			sig, msg = "replay-panic", fmt.Sprint(r)
		}
	}()
	return ck.Replay(w)
}

func scratchBase() string {
	if st, err := os.Stat("/dev/shm"); err == nil && st.IsDir() {
		return "/dev/shm"
	}
	d := filepath.Join(verifDir(), ".work")
	os.MkdirAll(d, 0o755)
	return d
}

// Scratch returns this worker's private scratch directory (on tmpfs where available), created on demand.
func Scratch() string {
	d := os.Getenv("VERIF_SCRATCH")
	if d == "" {
		d = filepath.Join(scratchBase(), fmt.Sprintf("vcheck-solo-%d", os.Getpid()))
	}
	os.MkdirAll(d, 0o755)
	return d
}

func writeEvidence(ck *Check, tier string, seed int64, m *Report, wall time.Duration, nviol int, seenKnown map[string]bool, workers int) {
	cov := map[string]any{}
	counters := map[string]int64{}
	for k, v := range m.Counters {
		counters[k] = v
	}
	dist := map[string]int{}
	for k, s := range m.distinct {
		dist[k] = len(s)
	}
	ev := m.Counters["evaluations"]
	cov["evaluations"] = ev
	cov["distinct_nontrivial"] = dist["nontrivial"]
	cov["rule"] = ck.Rule
	samples := m.Samples
	if samples == nil {
		samples = []any{}
	}
	cov["samples"] = samples
	cov["exhaustive"] = !m.TimedOut
	if ck.Level == "model_checking" {
		cov["states"] = dist["states"]
		cov["transitions"] = m.Counters["transitions"]
		tr := m.Counters["traces"]
		if tr == 0 {
			tr = ev
		}
		cov["traces_validated_against_impl"] = tr
	}
	if ck.Level == "translation_validation" {
		cov["programs"] = m.Counters["programs"]
		cov["disagreements_checked"] = m.Counters["disagreements_checked"]
	}
	cov["work_items"] = m.Items
	cov["workers"] = workers
	cov["counters"] = counters
	cov["distinct_sets"] = dist
	cov["notes"] = m.Notes
	cov["vacuity"] = m.Vacuity
	var ks []string
	for k := range seenKnown {
		ks = append(ks, k)
	}
	sort.Strings(ks)
	cov["known_findings_seen"] = ks
	sc := map[string]int64{}
	for k, v := range m.SigCounts {
		sc[k] = v
	}
	cov["violation_signature_counts"] = sc
	if m.TimedOut {
		cov["cap"] = "soft wall-clock budget reached; counts are what was covered before it"
	}
	evd := map[string]any{
		"property_id": ck.ID,
		"tier":        tier,
		"seed":        seed,
		"level":       ck.Level,
		"coverage":    cov,
		"assumptions": ck.Assumptions,
		"wall_s":      float64(int(wall.Seconds()*100)) / 100,
		"violations":  nviol,
	}
	os.MkdirAll(filepath.Join(verifDir(), "evidence"), 0o755)
	b, _ := json.MarshalIndent(evd, "", " ")
	os.WriteFile(filepath.Join(verifDir(), "evidence", ck.ID+".json"), b, 0o644)
}

func replayFile(checks map[string]*Check, path string) int {
	b, err := os.ReadFile(path)
	if err != nil {
		fmt.Fprintln(os.Stderr, err)
		return 2
	}
	var v Violation
	if err := json.Unmarshal(b, &v); err != nil {
		fmt.Fprintln(os.Stderr, err)
		return 2
	}
	ck := checks[v.Property]
	if ck == nil || ck.Replay == nil {
		fmt.Fprintf(os.Stderr, "no replay function for %s\n", v.Property)
		return 2
	}
	sig, msg := safeReplay(ck, v.Witness)
	if sig == "" {
		fmt.Printf("replay of %s: no violation observed (recorded sig=%s)\n", path, v.Sig)
		return 0
	}
	fmt.Printf("replay of %s: sig=%s\n  %s\n", path, sig, msg)
	if strings.TrimSpace(sig) != "" {
		fmt.Printf("VIOLATION property=%s replay=%s\n", v.Property, path)
	}
	return 1
}
