package checks

import (
	"encoding/json"
	"fmt"
	"strings"

	"git.defalsify.org/vise.git/engine"
	"git.defalsify.org/vise.git/resource"
	"git.defalsify.org/vise.git/state"

	"verif/app"
	"verif/codec"
	"verif/mc"
)

// C06 — signal flags steer control flow; reserved flags are tamper-proof; TERMINATE blocks.

func init() {
	register(&mc.Check{
		ID:    "C06",
		Level: "model_checking",
		Rule: "programs LOAD ff 0; {CATCH tt k m | CROAK k m}; HALT; INCMP... with the branch before the HALT and inside input handling, k in {7,8,9,10(last)}, m in {0,1}, x EVERY pair (FlagSet, FlagReset) of subsets of {0..10} with <=2 elements each (67^2 = 4489 pairs) returned by the external function x all input histories up to depth d, long-lived and persisted; " +
			"oracles: reference VM in lockstep (CATCH/CROAK taken iff flag == mode; position, stop, TERMINATE, client flags, call log), differential twin run with indices 0..5 removed from both lists (identical outputs, positions, ALL flag bytes, call logs), blocked requests execute zero instructions / call nothing / change nothing / print nothing; plus state.IsWriteableFlag over all 2^32 indices (thorough) or boundary windows (quick); " +
			"states = distinct (program, flag bytes, position); non-trivial = executions where a reserved index was requested or the branch was taken",
		Assumptions: []string{"what happens after client code clears TERMINATE is not constrained", "the symbol cache after a taken CROAK is not compared (undocumented)", "output of the request that terminates is not constrained"},
		Run:         c06Run,
		Replay:      c06Replay,
		MinItems:    1000,
	})
}

type c06Prog struct {
	Croak bool   `json:"croak"`
	Post  bool   `json:"branch_inside_input_handling"`
	K     uint32 `json:"flag"`
	M     bool   `json:"mode"`
	// Rel: the child node additionally starts with CATCH _ k !m (a taken CATCH with a relative target).
	Rel bool `json:"relative_catch_in_child,omitempty"`
	// Phase: the external function returns FlagSet on its first call and FlagReset on every later call,
	// and the child node RELOADs it, so that reset requests meet flags set by an earlier call.
	Phase bool `json:"two_phase_answers,omitempty"`
	// ChildCroak: the child node (reached through an INCMP that is followed by further INCMP lines)
	// starts with CROAK k !m: a croak right after a match must terminate, not go to the catch node.
	ChildCroak bool `json:"croak_in_child,omitempty"`
}

type c06Witness struct {
	Prog   c06Prog  `json:"prog"`
	Set    []uint32 `json:"flag_set"`
	Reset  []uint32 `json:"flag_reset"`
	Mode   string   `json:"mode"`
	Inputs []string `json:"inputs"`
	N      uint32   `json:"index,omitempty"`
}

func c06App(p c06Prog, set, reset []uint32) *app.App {
	a := app.New("flags")
	var br codec.Ins
	if p.Croak {
		br = codec.Ins{Op: codec.CROAK, N: p.K, Mode: p.M}
	} else {
		br = codec.Ins{Op: codec.CATCH, Sym: "tt", N: p.K, Mode: p.M}
	}
	if !p.Post {
		a.Node("root", "root", codec.Ins{Op: codec.LOAD, Sym: "ff", N: 0}, br, codec.Ins{Op: codec.MOUT, Sym: "go", Sel: "1"}, codec.Ins{Op: codec.HALT},
			codec.Ins{Op: codec.INCMP, Sym: "aa", Sel: "1"}, codec.Ins{Op: codec.INCMP, Sym: ".", Sel: "5"})
	} else {
		a.Node("root", "root", codec.Ins{Op: codec.MOUT, Sym: "go", Sel: "1"}, codec.Ins{Op: codec.HALT},
			codec.Ins{Op: codec.INCMP, Sym: "aa", Sel: "1"}, codec.Ins{Op: codec.LOAD, Sym: "ff", N: 0}, br, codec.Ins{Op: codec.INCMP, Sym: ".", Sel: "5"})
	}
	var aa []codec.Ins
	if p.Phase && !p.Post {
		aa = append(aa, codec.Ins{Op: codec.RELOAD, Sym: "ff"}, codec.Ins{Op: codec.CATCH, Sym: "tt", N: p.K, Mode: p.M})
	}
	if p.ChildCroak {
		aa = append(aa, codec.Ins{Op: codec.CROAK, N: p.K, Mode: !p.M})
	}
	if p.Rel {
		// complementary mode: taken exactly when the entry node's branch was not (otherwise the child is never reached)
		aa = append(aa, codec.Ins{Op: codec.CATCH, Sym: "_", N: p.K, Mode: !p.M})
	}
	aa = append(aa, codec.Ins{Op: codec.LOAD, Sym: "gg", N: 0}, codec.Ins{Op: codec.MOUT, Sym: "back", Sel: "0"}, codec.Ins{Op: codec.HALT}, codec.Ins{Op: codec.INCMP, Sym: "_", Sel: "0"}, codec.Ins{Op: codec.INCMP, Sym: ".", Sel: "5"})
	a.Node("aa", "aa", aa...)
	a.Node("tt", "tt", codec.Ins{Op: codec.MOUT, Sym: "back", Sel: "0"}, codec.Ins{Op: codec.HALT}, codec.Ins{Op: codec.INCMP, Sym: "_", Sel: "0"}, codec.Ins{Op: codec.INCMP, Sym: ".", Sel: "5"})
	a.Node("_catch", "catch", codec.Ins{Op: codec.HALT}, codec.Ins{Op: codec.INCMP, Sym: "_", Sel: "*"})
	a.FlagCount = 3
	a.Func("ff", func(e *app.Env, sym string, in []byte, l string) (resource.Result, error) {
		if p.Phase {
			if e.Counts[sym] <= 1 {
				return resource.Result{Content: "nor", FlagSet: append([]uint32(nil), set...)}, nil
			}
			return resource.Result{Content: "nor", FlagReset: append([]uint32(nil), reset...)}, nil
		}
		return resource.Result{Content: "nor", FlagSet: append([]uint32(nil), set...), FlagReset: append([]uint32(nil), reset...)}, nil
	})
	a.Func("gg", func(e *app.Env, sym string, in []byte, l string) (resource.Result, error) {
		return resource.Result{Content: "g" + l}, nil
	})
	a.WithInputs("1", "5", "2", "0")
	return a
}

func subsets2() [][]uint32 {
	out := [][]uint32{{}}
	for i := uint32(0); i <= 10; i++ {
		out = append(out, []uint32{i})
	}
	for i := uint32(0); i <= 10; i++ {
		for j := i + 1; j <= 10; j++ {
			out = append(out, []uint32{i, j})
		}
	}
	return out
}

func dropReserved(l []uint32) []uint32 {
	var o []uint32
	for _, x := range l {
		if x > 5 {
			o = append(o, x)
		}
	}
	return o
}

func c06Exec(p c06Prog, set, reset []uint32, mode string, inputs []string, c *mc.Ctx) (sig, msg string, reqs int) {
	a := c06App(p, set, reset)
	twinApp := c06App(p, dropReserved(set), dropReserved(reset))
	cfg := engine.Config{}
	s := newSess(a, mode, cfg)
	tw := newSess(twinApp, mode, cfg)
	rv := newRef(a, mode, cfg)
	all := append([]string{""}, inputs...)
	reserved := len(dropReserved(set)) != len(set) || len(dropReserved(reset)) != len(reset)
	taken := false
	for k, in := range all {
		var beforeKey string
		if s.St != nil {
			beforeKey = app.StateKey(s.St, s.Ca)
		}
		want := rv.Request([]byte(in))
		got := s.Request([]byte(in))
		two := tw.Request([]byte(in))
		reqs += 2
		where := fmt.Sprintf("%s %v set=%v reset=%v request %d inputs %q", mode, p, set, reset, k, all[:k+1])
		if got.Panic != "" {
			return "panic", fmt.Sprintf("%s: panic %s", where, got.Panic), reqs
		}
		// (iii) reserved indices are ignored: twin run identical
		if got.Out != two.Out || got.Cont != two.Cont || (got.ExecErr != "") != (two.ExecErr != "") || (got.FlushErr != "") != (two.FlushErr != "") ||
			!sameStrings(funcCalls(got.Calls), funcCalls(two.Calls)) || got.Steps != two.Steps {
			return "reserved-flag-request-has-effect", fmt.Sprintf("%s: differs from the run without indices 0..5: %s vs %s (calls %v vs %v, steps %d vs %d)", where, got.Client(), two.Client(), funcCalls(got.Calls), funcCalls(two.Calls), got.Steps, two.Steps), reqs
		}
		if s.St != nil && tw.St != nil {
			if fmt.Sprintf("%x", s.St.Flags) != fmt.Sprintf("%x", tw.St.Flags) || strings.Join(s.St.ExecPath, "/") != strings.Join(tw.St.ExecPath, "/") {
				return "reserved-flag-request-has-effect", fmt.Sprintf("%s: flags %x at %v, without indices 0..5 flags %x at %v", where, s.St.Flags, s.St.ExecPath, tw.St.Flags, tw.St.ExecPath), reqs
			}
		}
		if want.Undefined {
			return "", "", reqs
		}
		if want.ErrOrCatch {
			return "", "", reqs
		}
		if want.Blocked {
			// (iv) nothing runs while TERMINATE is set
			if got.Steps != 0 {
				return "instruction-runs-while-terminated", fmt.Sprintf("%s: %d instructions executed while TERMINATE is set", where, got.Steps), reqs
			}
			if len(funcCalls(got.Calls)) != 0 {
				return "external-call-while-terminated", fmt.Sprintf("%s: external functions %v called while TERMINATE is set", where, funcCalls(got.Calls)), reqs
			}
			if got.Out != "" {
				return "output-while-terminated", fmt.Sprintf("%s: output %q while TERMINATE is set", where, got.Out), reqs
			}
			if got.Cont {
				return "continue-while-terminated", fmt.Sprintf("%s: request reports continue while TERMINATE is set", where), reqs
			}
			if after := app.StateKey(s.St, s.Ca); mode == "long-lived" && after != beforeKey {
				return "state-changes-while-terminated", fmt.Sprintf("%s: state changed while blocked: %s -> %s", where, beforeKey, after), reqs
			}
			if mode != "long-lived" && s.St != nil {
				// persisted: compare position and flags only (a fresh engine may stage the entry move in Code; nothing runs)
				bf := beforeKey[:strings.Index(beforeKey, " code=")]
				af := app.StateKey(s.St, s.Ca)
				af = af[:strings.Index(af, " code=")]
				if bf != af {
					return "state-changes-while-terminated", fmt.Sprintf("%s: position/flags changed while blocked: %s -> %s", where, bf, af), reqs
				}
			}
			continue
		}
		if !sameStrings(funcCalls(got.Calls), want.Calls) {
			return "call-log-differs", fmt.Sprintf("%s: external calls %v, reference %v", where, funcCalls(got.Calls), want.Calls), reqs
		}
		if want.Err != (got.ExecErr != "") {
			return "error-differs", fmt.Sprintf("%s: exec error %q, reference expects error=%v", where, got.ExecErr, want.Err), reqs
		}
		if want.Err {
			continue
		}
		if got.Cont != want.Cont {
			return "continue-differs", fmt.Sprintf("%s: cont=%v, reference %v (ends %s)", where, got.Cont, want.Cont, want.Ends), reqs
		}
		if want.Ends == "graceful" {
			return "", "", reqs
		}
		if path := strings.Join(s.St.ExecPath, "/"); path != rv.Nav.Path() {
			sg := "position-differs"
			if want.Croaked {
				sg = "croak-wrong-outcome"
			}
			return sg, fmt.Sprintf("%s: at %s, reference at %s", where, path, rv.Nav.Path()), reqs
		}
		if flagSet(s.St.Flags, 6) != rv.Flags[6] {
			return "terminate-flag-differs", fmt.Sprintf("%s: TERMINATE=%v, reference %v", where, flagSet(s.St.Flags, 6), rv.Flags[6]), reqs
		}
		if uf := userFlags(s.St.Flags); uf != rv.UserFlags() {
			return "client-flags-differ", fmt.Sprintf("%s: client flags %s, reference %s", where, uf, rv.UserFlags()), reqs
		}
		if want.OutKnown && !want.FlushErr && got.FlushErr == "" && got.Out != want.Out && want.Ends == "" {
			return "output-differs", fmt.Sprintf("%s: output %q, reference %q", where, got.Out, want.Out), reqs
		}
		lg := ""
		if s.St.Language != nil {
			lg = s.St.Language.Code
		}
		if lg != rv.Lang {
			return "language-differs", fmt.Sprintf("%s: language %q, reference %q", where, lg, rv.Lang), reqs
		}
		if want.Croaked || strings.HasSuffix(rv.Nav.Path(), "/tt") {
			taken = true
		}
		if c != nil {
			c.Distinct("states", fmt.Sprint(p), fmt.Sprintf("%x", s.St.Flags), rv.Nav.Path())
		}
		if got.FlushErr != "" && mode == "long-lived" {
			break
		}
	}
	if c != nil && (reserved || taken) {
		c.Distinct("nontrivial", fmt.Sprint(p), fmt.Sprint(set), fmt.Sprint(reset), strings.Join(inputs, ","))
		if taken {
			c.Count("executions_branch_taken", 1)
		}
		if reserved {
			c.Count("executions_with_reserved_index_requested", 1)
		}
	}
	return "", "", reqs
}

func c06Replay(w json.RawMessage) (string, string) {
	var wit c06Witness
	if err := json.Unmarshal(w, &wit); err != nil {
		return "bad-witness", err.Error()
	}
	if wit.Mode == "writeable-sweep" {
		if state.IsWriteableFlag(wit.N) != (wit.N >= 6) {
			return "writeable-flag-threshold", fmt.Sprintf("IsWriteableFlag(%d) = %v", wit.N, state.IsWriteableFlag(wit.N))
		}
		return "", ""
	}
	s, m, _ := c06Exec(wit.Prog, wit.Set, wit.Reset, wit.Mode, wit.Inputs, nil)
	return s, m
}

func c06Run(c *mc.Ctx) {
	depth := 1
	modes := []string{"long-lived", "persisted"}
	if c.Thorough() {
		depth = 2
	}
	c.Note("history_depth_after_first_request", fmt.Sprint(depth))
	subs := subsets2()
	if c.Thorough() {
		c.Note("flag_list_pairs", fmt.Sprint(len(subs)*len(subs)))
	} else {
		c.Note("flag_list_pairs", fmt.Sprint(len(subs)*12)+" (FlagSet any <=2 subset, FlagReset <=1 index)")
	}
	inputsAlpha := []string{"1", "5", "2", "0"}
	var hists [][]string
	var rec func(cur []string)
	rec = func(cur []string) {
		if len(cur) == depth {
			hists = append(hists, append([]string(nil), cur...))
			return
		}
		for _, in := range inputsAlpha {
			rec(append(cur, in))
		}
	}
	rec(nil)
	// one more request at the end so that the effect on a later request is always seen
	for i := range hists {
		hists[i] = append(hists[i], "5")
	}
	var progs []c06Prog
	for _, croak := range []bool{false, true} {
		for _, post := range []bool{false, true} {
			for _, k := range []uint32{7, 8, 9, 10} {
				for _, m := range []bool{false, true} {
					progs = append(progs, c06Prog{Croak: croak, Post: post, K: k, M: m})
					if !croak && !post && k >= 8 {
						progs = append(progs, c06Prog{K: k, M: m, Rel: true}, c06Prog{K: k, M: m, Phase: true}, c06Prog{K: k, M: m, ChildCroak: true})
					}
				}
			}
		}
	}
	for _, p := range progs {
		for _, set := range subs {
			if !c.Mine() {
				continue
			}
			for _, reset := range subs {
				if !c.Thorough() && len(reset) > 1 && !(p.Phase && len(set) <= 1) {
					continue // quick tier: FlagReset lists of at most one index (804 pairs); two-phase programs: FlagSet <=1, FlagReset <=2
				}
				for _, mode := range modes {
					for _, h := range hists {
						sig, msg, reqs := c06Exec(p, set, reset, mode, h, c)
						c.Count("evaluations", 1)
						c.Count("transitions", int64(reqs))
						if sig != "" {
							c.Fail(sig, msg, c06Witness{Prog: p, Set: set, Reset: reset, Mode: mode, Inputs: h})
						}
					}
				}
			}
			if c.TimeUp() {
				return
			}
		}
	}
	c.Sample(map[string]any{"program": c06App(progs[5], []uint32{3, 9}, []uint32{6}).Describe(), "flag_set": []int{3, 9}, "flag_reset": []int{6}, "histories": hists[:2]})
	// IsWriteableFlag sweep
	check := func(n uint32) {
		if state.IsWriteableFlag(n) != (n >= 6) {
			c.Fail("writeable-flag-threshold", fmt.Sprintf("IsWriteableFlag(%d) = %v", n, state.IsWriteableFlag(n)), c06Witness{Mode: "writeable-sweep", N: n})
		}
	}
	if c.Thorough() {
		const block = 1 << 24
		for start := uint64(0); start < 1<<32; start += block {
			if !c.Mine() {
				continue
			}
			for n := start; n < start+block; n++ {
				check(uint32(n))
			}
			c.Count("writeable_indices_checked", block)
		}
		c.Note("writeable_sweep", "all 2^32 indices")
	} else {
		if c.Mine() {
			for _, base := range []uint64{0, 1 << 8, 1 << 16, 1 << 24, 1 << 31, 1<<32 - 70000} {
				for n := base; n < base+70000 && n < 1<<32; n++ {
					check(uint32(n))
				}
				c.Count("writeable_indices_checked", 70000)
			}
		}
		c.Note("writeable_sweep", "windows of 70000 at 0, 2^8, 2^16, 2^24, 2^31, 2^32-70000")
	}
}
