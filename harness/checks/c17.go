package checks

import (
	"bytes"
	"context"
	"encoding/json"
	"fmt"
	"strings"
	"sync"

	"git.defalsify.org/vise.git/engine"
	"git.defalsify.org/vise.git/persist"
	"git.defalsify.org/vise.git/resource"
	"git.defalsify.org/vise.git/vm"

	"verif/app"
	"verif/codec"
	"verif/mc"
)

// C17 — rejected input has no effect on the session (two-run comparison).

func init() {
	register(&mc.Check{
		ID:    "C17",
		Level: "model_checking",
		Rule: "applications (navigator, loader with counting external functions, input echo, paginated sink mid-browse, engine with a WithFirst function) x all valid histories up to depth d x EVERY insertion position 0..|h| x refused inputs {!,' 1',-1,newline,*,0xff,1<nl>1,256 x a,300 x 1,a + 150 x e-acute (301 bytes), 1 0xff 1, a 0xf8 b (begin like accepted input, not valid UTF-8)} x client behaviour after the refusal {nothing, Flush, Flush+Finish, and - engines kept between requests - the previous request's output fetched only after the refusal} x {long-lived, persisted on mem, persisted on fs}; " +
			"two-run oracle: the refused request returns an error and calls no application code; outputs, continue flags and call logs of all other requests equal the run without it; persisted snapshot before and after the refused request is equal; Flush before any Exec is refused and changes nothing; " +
			"states = distinct (app, history prefix) insertion points; non-trivial = insertions after at least one move away from the entry page",
		Assumptions: []string{"for a brand-new session the snapshot is not compared (the staged entry move is not an observable effect), only the behaviour of the following requests"},
		Run:         c17Run,
		Replay:      c17Replay,
		MinItems:    100,
	})
}

var c17Refused = []string{"!", " 1", "-1", "\n", "*", "\xff", "1\n1", strings.Repeat("a", 256), strings.Repeat("1", 300),
	"a" + strings.Repeat("\u00e9", 150), // 301 bytes, 151 characters: the limit is in bytes
	"%\xff\xfe",                         // matches only the application's own format (see c17CustomFormat) and is not text
	"1\xff1", "a\xf8b"}                  // begin like accepted input (a digit, a letter) but are not valid UTF-8

// c17CustomFormat registers, once per process, an additional input format the way an application does
// (engine.AddValidInput / examples/first): inputs starting with '%'. The registry is process-wide.
var c17CustomOnce sync.Once

func c17CustomFormat() {
	c17CustomOnce.Do(func() {
		vm.RegisterInputValidator(0, "^%.*")
		// a format that does not compile is refused at registration; it must not be left behind half registered
		vm.RegisterInputValidator(1, "^(")
	})
}

func isAlnum(b byte) bool {
	return b >= '0' && b <= '9' || b >= 'a' && b <= 'z' || b >= 'A' && b <= 'Z'
}

type c17Witness struct {
	App     string `json:"app"`
	Opts    lsOpts `json:"opts"`
	Inputs  qstrs  `json:"valid_history"`
	Pos     int    `json:"insert_before_request"`
	Refused qstr   `json:"refused_input"`
	Style   int    `json:"client_style"`
}

type c17AppDef struct {
	name   string
	build  func() *app.App
	cfg    engine.Config
	first  bool
	inputs []string
}

func echoApp() *app.App {
	a := app.New("echo")
	a.Node("root", "root {{.cnt}}", codec.Ins{Op: codec.LOAD, Sym: "cnt", N: 8}, codec.Ins{Op: codec.MAP, Sym: "cnt"}, codec.Ins{Op: codec.MOUT, Sym: "go", Sel: "1"}, codec.Ins{Op: codec.HALT},
		codec.Ins{Op: codec.INCMP, Sym: "ee", Sel: "1"}, codec.Ins{Op: codec.INCMP, Sym: ".", Sel: "5"})
	a.Node("ee", "ee {{.echo}} {{.cnt}}", codec.Ins{Op: codec.LOAD, Sym: "echo", N: 6}, codec.Ins{Op: codec.MAP, Sym: "echo"}, codec.Ins{Op: codec.RELOAD, Sym: "cnt"}, codec.Ins{Op: codec.MOUT, Sym: "back", Sel: "0"}, codec.Ins{Op: codec.HALT},
		codec.Ins{Op: codec.INCMP, Sym: "_", Sel: "0"}, codec.Ins{Op: codec.INCMP, Sym: ".", Sel: "5"})
	a.Node("_catch", "catch", codec.Ins{Op: codec.HALT}, codec.Ins{Op: codec.INCMP, Sym: "_", Sel: "*"})
	a.Func("cnt", counterFunc("c"))
	a.Func("echo", func(e *app.Env, sym string, in []byte, l string) (resource.Result, error) {
		return resource.Result{Content: "<" + string(in) + ">"}, nil
	})
	a.WithInputs("1", "0", "5", "zz")
	return a
}

var c17Apps = []c17AppDef{
	{name: "navigator", build: navigatorApp, inputs: []string{"1", "2", "3", "4", "5", "9"}},
	{name: "echo", build: echoApp, inputs: []string{"1", "0", "5", "zz"}},
	{name: "loader", build: func() *app.App {
		a, _ := c05App(c05Spec{RootLoad: 1, AaLoad: 5, BbLoad: 4, CcLoad: 2, Reload: 2})
		f := counterFunc("v")
		a.Func("ss", f).Func("tt", f)
		return a
	}, inputs: []string{"1", "0", "2", "5", "9"}},
	{name: "paged", build: func() *app.App {
		return c02App(c02Cfg{Rows: []string{"aaa", "", "ccc", "dd", "eeee"}, Tpl: 1, Menu: 1, Next: true, Prev: true})
	}, cfg: engine.Config{OutputSize: 34}, inputs: []string{"11", "22", "0"}},
	{name: "first", build: echoApp, first: true, inputs: []string{"1", "0", "5"}},
}

func c17Session(d c17AppDef, o lsOpts) (*app.Session, func()) {
	a := d.build()
	o.Cfg = d.cfg
	s, cl := openBackend(a, o)
	s.ReuseBuf = true // the front end reads every request into the same buffer
	if d.first {
		env := s.Env
		s.First = func(ctx context.Context, sym string, input []byte) (resource.Result, error) {
			env.Log = append(env.Log, app.Call{Kind: "call", Sym: "_first", Input: string(input)})
			return resource.Result{Content: "f"}, nil
		}
	}
	return s, cl
}

func c17Def(n string) (c17AppDef, bool) {
	for _, d := range c17Apps {
		if d.name == n {
			return d, true
		}
	}
	return c17AppDef{}, false
}

func c17Exec(d c17AppDef, o lsOpts, h []string, pos int, refused string, style int, nontrivial *bool) (sig, msg string, reqs int) {
	base, cl1 := c17Session(d, o)
	defer cl1()
	test, cl2 := c17Session(d, o)
	defer cl2()
	all := append([]string{""}, h...)
	where := func(k int) string {
		return fmt.Sprintf("%s %s/%s history %q refused %q inserted before request %d (client style %d), request %d", d.name, o.Mode, o.Backend, all, short(refused), pos, style, k)
	}
	// client style 3 (one engine kept between requests only): the output of the request BEFORE the refused
	// input has not been fetched yet when the refused input arrives; it is fetched afterwards and must be
	// the page that request produced
	unfetched := style == 3 && pos > 0 && strings.HasPrefix(o.Mode, "long-lived")
	if style == 3 {
		style = 0
	}
	pendingOut, havePending := "", false
	for k := 0; k <= len(all); k++ {
		if k == pos {
			var beforeKey string
			haveBefore := false
			if o.Mode == "persisted" && k > 0 {
				if st, ca, _, err := test.Snapshot(); err == nil {
					beforeKey, haveBefore = app.StateKey(st, ca), true
				}
			}
			r := test.Attempt([]byte(refused), style)
			reqs++
			if r.Panic != "" {
				return "panic", fmt.Sprintf("%s: refused input panics: %s", where(k), r.Panic), reqs
			}
			if r.ExecErr == "" {
				return "refused-input-accepted", fmt.Sprintf("%s: no error for the refused input", where(k)), reqs
			}
			if calls := funcCalls(r.Calls); len(calls) > 0 {
				sg := "application-code-runs-on-refused-input"
				if len(calls) == 1 && calls[0] == "_first" {
					sg = "first-function-runs-on-refused-input"
				}
				return sg, fmt.Sprintf("%s: application code %v executed for a refused input", where(k), calls), reqs
			}
			if r.Steps != 0 && k > 0 {
				return "instructions-run-on-refused-input", fmt.Sprintf("%s: %d instructions executed", where(k), r.Steps), reqs
			}
			if r.Out != "" {
				return "output-on-refused-input", fmt.Sprintf("%s: output %q", where(k), r.Out), reqs
			}
			if havePending {
				out, err := test.FlushOnly()
				if err != nil || out != pendingOut {
					return "pending-output-lost-by-refused-input", fmt.Sprintf("%s: the page of request %d had not been fetched when the refused input arrived; Flush afterwards gives %q (%v), the page was %q", where(k), k-1, short(out), err, short(pendingOut)), reqs
				}
				havePending = false
			}
			if haveBefore {
				st, ca, _, err := test.Snapshot()
				if err != nil {
					return "snapshot-lost", fmt.Sprintf("%s: stored session unreadable after the refused request: %v", where(k), err), reqs
				}
				// a fresh engine stages the entry move when no code is pending; that is not an observable effect
				norm := func(k string) string { return strings.Replace(k, " code=000604726f6f74 ", " code= ", 1) }
				if after := app.StateKey(st, ca); norm(after) != norm(beforeKey) {
					return "snapshot-changed-by-refused-input", fmt.Sprintf("%s: stored session changed: %s -> %s", where(k), beforeKey, after), reqs
				}
			}
		}
		if k == len(all) {
			break
		}
		rb := base.Request([]byte(all[k]))
		var rt app.Resp
		if unfetched && k == pos-1 && rb.ExecErr == "" && rb.FlushErr == "" && rb.Cont {
			rt = test.Attempt([]byte(all[k]), 0) // Exec only
			rt.Out, rt.FlushErr, rt.FinishErr = rb.Out, rb.FlushErr, rb.FinishErr
			pendingOut, havePending = rb.Out, true
		} else {
			rt = test.Request([]byte(all[k]))
		}
		reqs += 2
		if rt.Panic != "" && rb.Panic == "" {
			return "panic", fmt.Sprintf("%s: panic %s", where(k), rt.Panic), reqs
		}
		if rb.Client() != rt.Client() || !sameStrings(funcCalls(rb.Calls), funcCalls(rt.Calls)) {
			sg := "later-request-differs"
			if k < pos {
				sg = "harness-nondeterminism"
			}
			return sg, fmt.Sprintf("%s: %s calls %v; without the refused input: %s calls %v", where(k), rt.Client(), funcCalls(rt.Calls), rb.Client(), funcCalls(rb.Calls)), reqs
		}
		if base.St != nil && test.St != nil && app.StateKey(base.St, base.Ca) != app.StateKey(test.St, test.Ca) && k >= pos {
			return "later-state-differs", fmt.Sprintf("%s: state %s; without the refused input %s", where(k), app.StateKey(test.St, test.Ca), app.StateKey(base.St, base.Ca)), reqs
		}
		if nontrivial != nil && k+1 == pos && base.St != nil && (len(base.St.ExecPath) > 1 || base.St.SizeIdx > 0) {
			*nontrivial = true
		}
		if strings.HasPrefix(o.Mode, "long-lived") && (rb.FlushErr != "" || rb.ExecErr != "" || !rb.Cont) {
			break
		}
	}
	return "", "", reqs
}

// c17Loop: the same question asked of engine.Loop, the library's own driver: the valid prefix of the history
// and then the over-long line are fed to ONE Loop call (engine with persister). Loop must stop with an error at
// that line, having written exactly the pages of the prefix, and the session it saved is the session after the prefix.
func c17Loop(d c17AppDef, h []string, pos int, refused string) (sig, msg string, reqs int) {
	all := append([]string{""}, h...)
	if pos < 1 || pos > len(all) {
		return "", "", 0
	}
	o := lsOpts{Mode: "persisted", Backend: "mem", Cfg: d.cfg}
	base, cl := c17Session(d, o)
	defer cl()
	want := ""
	for _, in := range all[:pos] {
		r := base.Request([]byte(in))
		reqs++
		if r.ExecErr != "" || r.FlushErr != "" || !r.Cont || r.Panic != "" {
			return "", "", reqs // the prefix itself ends the loop: nothing to ask
		}
		if len(r.Out) > 0 {
			want += r.Out + "\n"
		}
	}
	bst, bca, _, err := base.Snapshot()
	if err != nil {
		return "", "", reqs
	}
	test, cl2 := c17Session(d, o)
	defer cl2()
	en := engine.NewEngine(test.Cfg, test.Res)
	store := test.Open()
	store.SetSession(test.Cfg.SessionId)
	en = en.WithPersister(persist.NewPersister(store))
	if test.First != nil {
		en = en.WithFirst(test.First)
	}
	lines := strings.Join(append(append([]string{}, all[1:pos]...), refused, "1"), "\n") + "\n"
	var w bytes.Buffer
	var lerr error
	pan := ""
	func() {
		defer func() {
			if p := recover(); p != nil {
				pan = fmt.Sprint(p)
			}
		}()
		lerr = engine.Loop(context.Background(), en, strings.NewReader(lines), &w, []byte(all[0]))
	}()
	reqs += pos + 1
	where := fmt.Sprintf("%s through engine.Loop: lines %q then a line of %d bytes (%s...)", d.name, all[1:pos], len(refused), refused[:8])
	if pan != "" {
		return "panic", where + ": panic " + pan, reqs
	}
	if lerr == nil {
		return "loop-accepts-over-long-line", fmt.Sprintf("%s: Loop returns no error; output %q", where, short(w.String())), reqs
	}
	if w.String() != want {
		return "loop-output-differs", fmt.Sprintf("%s: Loop wrote %q, the pages of the valid lines are %q", where, short(w.String()), short(want)), reqs
	}
	st, ca, _, err := test.Snapshot()
	if err != nil {
		return "loop-session-lost", fmt.Sprintf("%s: no readable session record after the loop ended: %v", where, err), reqs
	}
	if app.StateKey(st, ca) != app.StateKey(bst, bca) {
		return "loop-session-changed-by-refused-line", fmt.Sprintf("%s: the loop saved %s; the session after the valid lines is %s", where, app.StateKey(st, ca), app.StateKey(bst, bca)), reqs
	}
	return "", "", reqs
}

func c17Replay(w json.RawMessage) (string, string) {
	c17CustomFormat()
	var wit c17Witness
	if err := json.Unmarshal(w, &wit); err != nil {
		return "bad-witness", err.Error()
	}
	if wit.App == "flush-before-exec" {
		return c17FlushFirst(wit.Opts)
	}
	if wit.Opts.Mode == "engine-loop" {
		d, ok := c17Def(wit.App)
		if !ok {
			return "bad-witness", "app"
		}
		s, m, _ := c17Loop(d, wit.Inputs, wit.Pos, string(wit.Refused))
		return s, m
	}
	d, ok := c17Def(wit.App)
	if !ok {
		return "bad-witness", "app"
	}
	s, m, _ := c17Exec(d, wit.Opts, wit.Inputs, wit.Pos, string(wit.Refused), wit.Style, nil)
	return s, m
}

// c17FlushFirst: asking for output before anything was executed is refused without side effects.
func c17FlushFirst(o lsOpts) (string, string) {
	d := c17Apps[1]
	s, cl := c17Session(d, lsOpts{Mode: "long-lived"})
	defer cl()
	b, cl2 := c17Session(d, lsOpts{Mode: "long-lived"})
	defer cl2()
	out, err := s.FlushOnly()
	if err == nil || out != "" {
		return "flush-before-exec-accepted", fmt.Sprintf("Flush before Exec returned (%q, %v)", out, err)
	}
	if err != engine.ErrFlushNoExec {
		return "flush-before-exec-wrong-error", fmt.Sprintf("Flush before Exec returned %v", err)
	}
	if len(s.Env.Log) != 0 {
		return "flush-before-exec-side-effect", fmt.Sprintf("Flush before Exec made calls %v", s.Env.Log)
	}
	for _, in := range []string{"", "1", "0"} {
		r1, r2 := s.Request([]byte(in)), b.Request([]byte(in))
		if r1.Client() != r2.Client() {
			return "flush-before-exec-side-effect", fmt.Sprintf("after an early Flush input %q gives %s, otherwise %s", in, r1.Client(), r2.Client())
		}
	}
	return "", ""
}

func c17Run(c *mc.Ctx) {
	depth := 2
	if c.Thorough() {
		depth = 3
	}
	c.Note("valid_history_depth", fmt.Sprint(depth))
	c17CustomFormat()
	cerr := func() (err error) {
		defer func() {
			if recover() != nil {
				err = nil // reported below, through the engine
			}
		}()
		_, err = vm.ValidInput([]byte("%ok"))
		return
	}()
	c.Vacuity("custom-input-format-active", cerr == nil)
	// every single byte that is not a letter or digit (and not '%', the custom format) is refused, at the
	// first request and after one: 2 x 193 inputs on the navigator, long-lived and persisted
	if nav, ok := c17Def("navigator"); ok {
		for b := 0; b < 256; b++ {
			if isAlnum(byte(b)) || b == '%' || !c.Mine() {
				continue
			}
			for _, o := range []lsOpts{{Mode: "long-lived"}, {Mode: "persisted", Backend: "mem"}} {
				for pos := 0; pos <= 1; pos++ {
					h := []string{"1", "2"}
					sig, msg, reqs := c17Exec(nav, o, h, pos, string([]byte{byte(b)}), 2, nil)
					c.Count("evaluations", 1)
					c.Count("single_byte_inputs", 1)
					c.Count("transitions", int64(reqs))
					if sig != "" {
						c.Fail(sig, msg, c17Witness{App: nav.name, Opts: o, Inputs: h, Pos: pos, Refused: qstr(string([]byte{byte(b)})), Style: 2})
					}
				}
			}
		}
	}
	// long-lived-persister: one engine WITH a persister for the whole session (the engine.Loop arrangement)
	backends := []lsOpts{{Mode: "long-lived"}, {Mode: "persisted", Backend: "mem"}, {Mode: "persisted", Backend: "fs"}, {Mode: "long-lived-persister", Backend: "mem"}}
	if c.Mine() {
		if sig, msg := c17FlushFirst(lsOpts{}); sig != "" {
			c.Fail(sig, msg, c17Witness{App: "flush-before-exec"})
		}
		c.Count("evaluations", 1)
	}
	for _, d := range c17Apps {
		histories(d.inputs, depth, func(h []string) {
			if !c.Mine() {
				return
			}
			for pos := 1; pos <= len(h)+1; pos++ {
				for _, rf := range []string{strings.Repeat("a", 256), strings.Repeat("1", 300), strings.Repeat("1", 511)} {
					sig, msg, reqs := c17Loop(d, h, pos, rf)
					c.Count("evaluations", 1)
					c.Count("engine_loop_runs", 1)
					c.Count("transitions", int64(reqs))
					if sig != "" {
						c.Fail(sig, msg, c17Witness{App: d.name, Opts: lsOpts{Mode: "engine-loop"}, Inputs: h, Pos: pos, Refused: qstr(rf)})
					}
				}
			}
		})
		for _, o := range backends {
			histories(d.inputs, depth, func(h []string) {
				if !c.Mine() {
					return
				}
				for pos := 0; pos <= len(h)+1; pos++ {
					for _, rf := range c17Refused {
						for style := 0; style < 4; style++ {
							if style == 3 && (!strings.HasPrefix(o.Mode, "long-lived") || pos == 0) {
								continue
							}
							nt := false
							sig, msg, reqs := c17Exec(d, o, h, pos, rf, style, &nt)
							c.Count("evaluations", 1)
							c.Count("transitions", int64(reqs))
							c.Distinct("states", d.name, fmt.Sprint(h[:min(pos, len(h))]), fmt.Sprint(pos))
							if nt {
								c.Distinct("nontrivial", d.name, o.Mode, o.Backend, fmt.Sprint(h), fmt.Sprint(pos))
							}
							if sig != "" {
								c.Fail(sig, msg, c17Witness{App: d.name, Opts: o, Inputs: h, Pos: pos, Refused: qstr(rf), Style: style})
							}
						}
					}
				}
			})
			if c.TimeUp() {
				return
			}
		}
		c.Sample(map[string]any{"app": d.name, "valid_inputs": d.inputs, "refused_inputs": len(c17Refused), "positions": "every", "styles": 3})
	}
}
