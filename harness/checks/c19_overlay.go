//go:build overlay

package checks

import "git.defalsify.org/vise.git/verifshim/vos"

func init() {
	c19SetFsYield = func(y func()) { vos.Yield = y }
}
