package checks

import (
	"encoding/json"
	"fmt"
	"reflect"
	"sort"
	"strings"

	"git.defalsify.org/vise.git/cache"

	"verif/mc"
)

// C09 — explicit-state BFS over cache.Cache to a fixpoint.
//
// All state of cache.Cache that any operation reads is exported (CacheSize, CacheUseSize, Cache,
// Sizes, LastValue), so a deep copy is a true clone and the exported fields are the canonical state.

type c09Op struct {
	Kind  string `json:"op"`
	Key   string `json:"key,omitempty"`
	Val   int    `json:"val_idx,omitempty"` // index into c09Vals
	Len   int    `json:"val_len,omitempty"`
	Limit uint16 `json:"limit,omitempty"`
}

type c09Witness struct {
	Capacity uint32  `json:"capacity"`
	Ops      []c09Op `json:"ops"` // path from the empty cache; the last op is the one that violates
}

var c09Vals []string

func init() {
	lens := []int{0, 1, 1, 3, 4, 65535, 65536, 70000}
	for i, l := range lens {
		c09Vals = append(c09Vals, strings.Repeat(string(rune('p'+i)), l))
	}
	c09Vals[2] = "\xff" // the second one-byte value is not valid UTF-8: a value is bytes, stored and counted as given
	register(&mc.Check{
		ID:    "C09",
		Level: "model_checking",
		Rule: "explicit-state BFS to fixpoint on the real cache.Cache (deep-copied exported fields = canonical state), one graph per capacity; " +
			"ops Add/Update/Get/ReservedSize/Push/Pop/Reset/Last over keys {a,b}, 8 values of lengths {0,1,1' (the byte 0xff),3,4,65535,65536,70000}, limits {0,3,65535}, depth<=4 scopes; " +
			"a state is non-trivial when it holds at least one symbol; invariants (i)-(vi) of DESIGN C09 evaluated on every transition",
		Assumptions: []string{"values outside the 8-value alphabet and keys other than a,b are not explored", "scope depth capped at 4"},
		Run:         c09Run,
		Replay:      c09Replay,
		MinItems:    2,
	})
}

// c09Clone copies the exported fields. The scope slice is copied WITH its spare capacity and the
// maps that still sit behind its length (scopes dropped by Reset/Pop): an implementation that reuses
// them would otherwise look correct only because the clone threw them away.
func c09Clone(c *cache.Cache) *cache.Cache {
	n := new(cache.Cache)
	*n = *c // every scalar field, whatever the tree declares; maps and slices are deep-copied below
	full := c.Cache[:cap(c.Cache)]
	nf := make([]map[string]string, len(full))
	for i, m := range full {
		if m == nil {
			continue
		}
		nm := make(map[string]string, len(m))
		for k, v := range m {
			nm[k] = v
		}
		nf[i] = nm
	}
	n.Cache = nf[:len(c.Cache)]
	n.Sizes = make(map[string]uint16, len(c.Sizes))
	for k, v := range c.Sizes {
		n.Sizes[k] = v
	}
	return n
}

func valID(v string) string {
	if len(v) == 0 {
		return "-"
	}
	return fmt.Sprintf("%c%d", v[0], len(v))
}

func c09Key(c *cache.Cache) string {
	var sb strings.Builder
	fmt.Fprintf(&sb, "cap=%d use=%d last=%s |", c.CacheSize, c.CacheUseSize, valID(c.LastValue))
	for _, m := range c.Cache {
		ks := make([]string, 0, len(m))
		for k := range m {
			ks = append(ks, k)
		}
		sort.Strings(ks)
		sb.WriteString("[")
		for _, k := range ks {
			fmt.Fprintf(&sb, "%s=%s,", k, valID(m[k]))
		}
		sb.WriteString("]")
	}
	ks := make([]string, 0, len(c.Sizes))
	for k := range c.Sizes {
		ks = append(ks, k)
	}
	sort.Strings(ks)
	sb.WriteString("|")
	for _, k := range ks {
		fmt.Fprintf(&sb, "%s:%d,", k, c.Sizes[k])
	}
	// any further exported scalar field of the tree under test is part of the state
	rv := reflect.ValueOf(c).Elem()
	for i := 0; i < rv.NumField(); i++ {
		f := rv.Type().Field(i)
		if !f.IsExported() || f.Name == "CacheSize" || f.Name == "CacheUseSize" || f.Name == "LastValue" {
			continue
		}
		switch f.Type.Kind() {
		case reflect.Map, reflect.Slice, reflect.Ptr, reflect.Interface, reflect.Func, reflect.Chan, reflect.Struct, reflect.Array:
		default:
			fmt.Fprintf(&sb, "|%s=%v", f.Name, rv.Field(i).Interface())
		}
	}
	// of the dropped scopes that still sit behind the slice's length one bit is part of the key: whether the
	// slot the NEXT Push would take holds a map with entries (an implementation that reuses it shows them)
	if l := len(c.Cache); l < cap(c.Cache) {
		if m := c.Cache[:l+1][l]; len(m) > 0 {
			sb.WriteString("|next-slot-holds-entries")
		}
	}
	// Dropped scopes that still sit behind the slice's length are otherwise NOT part of the key (including them
	// multiplies the graph by 20 and no longer reaches a fixpoint), but c09Clone preserves them, so the
	// representative of every state carries the hidden maps of the path that first reached it.
	return sb.String()
}

func c09Ops(levels int) []c09Op {
	var ops []c09Op
	for _, k := range []string{"a", "b"} {
		for vi := range c09Vals {
			for _, lim := range []uint16{0, 3, 65535} {
				ops = append(ops, c09Op{Kind: "Add", Key: k, Val: vi, Len: len(c09Vals[vi]), Limit: lim})
			}
			ops = append(ops, c09Op{Kind: "Update", Key: k, Val: vi, Len: len(c09Vals[vi])})
		}
		ops = append(ops, c09Op{Kind: "Get", Key: k}, c09Op{Kind: "ReservedSize", Key: k})
	}
	if levels < 4 {
		ops = append(ops, c09Op{Kind: "Push"})
	}
	ops = append(ops, c09Op{Kind: "Pop"}, c09Op{Kind: "Reset"}, c09Op{Kind: "Last"})
	return ops
}

func sumBytes(c *cache.Cache) (total uint64, perLevel []uint64, dup string) {
	seen := map[string]int{}
	for i, m := range c.Cache {
		var s uint64
		for k, v := range m {
			s += uint64(len(v))
			if j, ok := seen[k]; ok && j != i {
				dup = k
			}
			seen[k] = i
		}
		perLevel = append(perLevel, s)
		total += s
	}
	return
}

func sameExported(a, b *cache.Cache) bool {
	return c09Key(a) == c09Key(b) && a.LastValue == b.LastValue && sameContents(a, b)
}

func sameContents(a, b *cache.Cache) bool {
	if len(a.Cache) != len(b.Cache) {
		return false
	}
	for i := range a.Cache {
		if len(a.Cache[i]) != len(b.Cache[i]) {
			return false
		}
		for k, v := range a.Cache[i] {
			if w, ok := b.Cache[i][k]; !ok || w != v {
				return false
			}
		}
	}
	return true
}

// c09Apply applies op to c (mutating it) and returns the violated invariant signature, if any.
func c09Apply(c *cache.Cache, op c09Op) (sig, msg string) {
	defer func() {
		if r := recover(); r != nil {
			sig, msg = "panic", fmt.Sprintf("%v panicked: %v", op, r)
		}
	}()
	before := c09Clone(c)
	btotal, bper, _ := sumBytes(before)
	_ = btotal
	var err error
	var got string
	switch op.Kind {
	case "Add":
		err = c.Add(op.Key, c09Vals[op.Val], op.Limit)
		if err == nil && op.Limit > 0 && len(c09Vals[op.Val]) > int(op.Limit) {
			return "limit-not-enforced-add", fmt.Sprintf("Add(%s, %d bytes, limit %d) was accepted", op.Key, len(c09Vals[op.Val]), op.Limit)
		}
		if err == nil {
			if v, gerr := c.Get(op.Key); gerr != nil || v != c09Vals[op.Val] {
				return "add-not-readable", fmt.Sprintf("after successful Add(%s) Get returns (%s,%v)", op.Key, valID(v), gerr)
			}
			if _, ok := c.Cache[len(c.Cache)-1][op.Key]; !ok {
				return "add-wrong-scope", fmt.Sprintf("Add(%s) did not store in the current scope", op.Key)
			}
			if sz, serr := c.ReservedSize(op.Key); serr != nil || sz != op.Limit {
				return "limit-not-recorded", fmt.Sprintf("after Add(%s, limit %d) ReservedSize gives (%d,%v)", op.Key, op.Limit, sz, serr)
			}
		}
	case "Update":
		lim, live := uint16(0), false
		for _, m := range before.Cache {
			if _, ok := m[op.Key]; ok {
				live = true
			}
		}
		if live {
			lim = before.Sizes[op.Key]
		}
		err = c.Update(op.Key, c09Vals[op.Val])
		if err == nil && !live {
			return "update-undefined-accepted", fmt.Sprintf("Update(%s) of a symbol that is not defined succeeded", op.Key)
		}
		if err == nil && live && lim > 0 && len(c09Vals[op.Val]) > int(lim) {
			return "limit-not-enforced-update", fmt.Sprintf("Update(%s, %d bytes) accepted under limit %d", op.Key, len(c09Vals[op.Val]), lim)
		}
		if err == nil {
			if v, gerr := c.Get(op.Key); gerr != nil || v != c09Vals[op.Val] {
				return "update-not-readable", fmt.Sprintf("after successful Update(%s) Get returns (%s,%v)", op.Key, valID(v), gerr)
			}
		}
	case "Get":
		got, err = c.Get(op.Key)
		var want string
		live := false
		for _, m := range before.Cache {
			if v, ok := m[op.Key]; ok {
				want, live = v, true
			}
		}
		if live && (err != nil || got != want) {
			return "get-wrong", fmt.Sprintf("Get(%s) = (%s,%v), stored %s", op.Key, valID(got), err, valID(want))
		}
		if !live && err == nil {
			return "get-dead-symbol", fmt.Sprintf("Get(%s) succeeded with %s but the symbol is in no scope", op.Key, valID(got))
		}
		if !sameExported(before, c) {
			return "get-mutates", fmt.Sprintf("Get(%s) changed the cache", op.Key)
		}
		return "", ""
	case "ReservedSize":
		_, _ = c.ReservedSize(op.Key)
		if !sameExported(before, c) {
			return "reservedsize-mutates", "ReservedSize changed the cache"
		}
		return "", ""
	case "Push":
		err = c.Push()
		if err == nil && (len(c.Cache) != len(before.Cache)+1 || len(c.Cache[len(c.Cache)-1]) != 0) {
			return "push-shape", "Push did not add exactly one empty scope"
		}
	case "Pop":
		err = c.Pop()
		if err == nil {
			nl := len(before.Cache) - 1
			wantUse := uint64(before.CacheUseSize) - bper[nl]
			if uint64(c.CacheUseSize) != wantUse {
				return "pop-release", fmt.Sprintf("Pop released %d bytes, the scope held %d", int64(before.CacheUseSize)-int64(c.CacheUseSize), bper[nl])
			}
			keep := nl
			if nl == 0 {
				keep = 0
			}
			for i := 0; i < keep; i++ {
				if len(c.Cache) <= i || !sameMap(c.Cache[i], before.Cache[i]) {
					return "pop-touches-other-scope", fmt.Sprintf("Pop changed scope %d", i)
				}
			}
			wantLevels := nl
			if nl == 0 {
				wantLevels = 1
			}
			if len(c.Cache) != wantLevels {
				return "pop-levels", fmt.Sprintf("Pop from %d levels left %d", len(before.Cache), len(c.Cache))
			}
		}
	case "Reset":
		c.Reset()
		if len(c.Cache) != 1 || !sameMap(c.Cache[0], before.Cache[0]) {
			return "reset-shape", "Reset did not leave exactly the unchanged top scope"
		}
		if uint64(c.CacheUseSize) != bper[0] {
			return "reset-release", fmt.Sprintf("Reset left used=%d, top scope holds %d", c.CacheUseSize, bper[0])
		}
	case "Last":
		l := c.Last()
		if l != before.LastValue {
			return "last-wrong", "Last did not return the last inserted value"
		}
		c2 := c09Clone(c)
		c2.LastValue = before.LastValue
		if !sameExported(before, c2) {
			return "last-mutates", "Last changed more than the last-value register"
		}
		return "", ""
	}
	// invariants on the successor state
	if err != nil {
		if !sameExported(before, c) {
			return "rejected-op-changed-cache", fmt.Sprintf("%s(%s,%d bytes,limit %d) returned an error (%v) but the cache changed: %s -> %s", op.Kind, op.Key, op.Len, op.Limit, err, c09Key(before), c09Key(c))
		}
		return "", ""
	}
	total, _, dup := sumBytes(c)
	if uint64(c.CacheUseSize) != total {
		return "accounting", fmt.Sprintf("after %s(%s): used=%d but contents sum to %d", op.Kind, op.Key, c.CacheUseSize, total)
	}
	if c.CacheSize > 0 && total > uint64(c.CacheSize) {
		return "capacity-exceeded", fmt.Sprintf("after %s(%s): %d bytes cached, capacity %d", op.Kind, op.Key, total, c.CacheSize)
	}
	if dup != "" {
		return "symbol-in-two-scopes", fmt.Sprintf("after %s: symbol %s is defined in two scopes", op.Kind, dup)
	}
	for _, m := range c.Cache {
		for k := range m {
			if _, ok := c.Sizes[k]; !ok {
				return "live-symbol-without-limit", fmt.Sprintf("after %s: live symbol %s has no declared limit", op.Kind, k)
			}
		}
	}
	return "", ""
}

func sameMap(a, b map[string]string) bool {
	if len(a) != len(b) {
		return false
	}
	for k, v := range a {
		if w, ok := b[k]; !ok || w != v {
			return false
		}
	}
	return true
}

type c09Node struct {
	parent int
	op     c09Op
	st     *cache.Cache
}

func c09Run(c *mc.Ctx) {
	caps := []uint32{0, 7}
	if c.Thorough() {
		caps = []uint32{0, 4, 7, 70000, 140000}
	}
	for _, cp := range caps {
		if !c.Mine() {
			continue
		}
		c09BFS(c, cp)
	}
}

func c09Path(nodes []c09Node, i int, last c09Op) []c09Op {
	var rev []c09Op
	for i > 0 {
		rev = append(rev, nodes[i].op)
		i = nodes[i].parent
	}
	var p []c09Op
	for j := len(rev) - 1; j >= 0; j-- {
		p = append(p, rev[j])
	}
	return append(p, last)
}

func c09BFS(c *mc.Ctx, capacity uint32) {
	init := cache.NewCache()
	if capacity > 0 {
		init = init.WithCacheSize(capacity)
	}
	nodes := []c09Node{{parent: -1, st: init}}
	seen := map[string]int{c09Key(init): 0}
	c.Distinct("states", c09Key(init))
	var trans int64
	maxDepthIdx := 0
	for i := 0; i < len(nodes); i++ {
		if c.TimeUp() {
			break
		}
		cur := nodes[i].st
		for _, op := range c09Ops(len(cur.Cache)) {
			nx := c09Clone(cur)
			sig, msg := c09Apply(nx, op)
			trans++
			if sig != "" {
				// a violating transition is reported and not expanded further, so every
				// recorded path consists of clean transitions plus the violating last step
				c.Fail(sig, msg, c09Witness{Capacity: capacity, Ops: c09Path(nodes, i, op)})
				continue
			}
			k := c09Key(nx)
			if _, ok := seen[k]; !ok {
				seen[k] = len(nodes)
				nodes = append(nodes, c09Node{parent: i, op: op, st: nx})
				maxDepthIdx = len(nodes) - 1
				c.Distinct("states", k)
				n := 0
				for _, m := range nx.Cache {
					n += len(m)
				}
				if n > 0 {
					c.Distinct("nontrivial", k)
				}
			}
		}
	}
	c.Count("transitions", trans)
	c.Count("evaluations", trans)
	c.Count("traces", int64(len(nodes)))
	c.Count(fmt.Sprintf("states_capacity_%d", capacity), int64(len(nodes)))
	p := c09Path(nodes, maxDepthIdx, c09Op{Kind: "(end)"})
	c.Note(fmt.Sprintf("bfs_depth_capacity_%d", capacity), fmt.Sprint(len(p)-1))
	c.Sample(map[string]any{"capacity": capacity, "deepest_state_path": p, "state": c09Key(nodes[maxDepthIdx].st)})
}

func c09Replay(w json.RawMessage) (string, string) {
	var wit c09Witness
	if err := json.Unmarshal(w, &wit); err != nil {
		return "bad-witness", err.Error()
	}
	ca := cache.NewCache()
	if wit.Capacity > 0 {
		ca = ca.WithCacheSize(wit.Capacity)
	}
	for i, op := range wit.Ops {
		sig, msg := c09Apply(ca, op)
		if sig != "" {
			return sig, fmt.Sprintf("step %d: %s", i, msg)
		}
	}
	return "", ""
}
