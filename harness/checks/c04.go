package checks

import (
	"context"
	"encoding/json"
	"fmt"
	"strings"

	"git.defalsify.org/vise.git/cache"
	"git.defalsify.org/vise.git/engine"
	"git.defalsify.org/vise.git/resource"
	"git.defalsify.org/vise.git/state"
	"git.defalsify.org/vise.git/vm"

	"verif/app"
	"verif/codec"
	"verif/mc"
	"verif/ref"
)

// C04 — navigation stack and page index follow the documented move table.

func init() {
	register(&mc.Check{
		ID:    "C04",
		Level: "model_checking",
		Rule: "all move sequences up to depth d over {aa,bb,cc,_,^,.,>,<} and over {aa,bb,root,_,^,.,>,<} (an edge back to the entry node: the entry node below itself on the stack) issued through MOVE, matching INCMP and taken CATCH on the real vm.Vm (stateless DFS, fresh instance + replay per sequence), plus all input histories up to depth h on a navigator application through engine.DefaultEngine in long-lived and persisted (mem) operation; " +
			"the documented move table is stepped in lockstep as a stack machine and compared after every move (ExecPath, page index, Where, Depth, cache levels, persisted snapshot); states = distinct (stack, index) positions reached; non-trivial = positions with depth>=2 or index>0",
		Assumptions: []string{"position after a failed '_' at the entry node and the page index after '^' issued at the entry node are not constrained (documentation silent)", "a named move onto the current top node is excluded (ill-formed application)", "engine level uses non-paged nodes: '>' only moves the index; rendering failures are ignored here (C02/C08)"},
		Run:         c04Run,
		Replay:      c04Replay,
		MinItems:    100,
	})
}

type c04Witness struct {
	Part   string   `json:"part"` // vm | engine
	Route  string   `json:"route,omitempty"`
	Moves  []string `json:"moves,omitempty"`
	Mode   string   `json:"mode,omitempty"`
	Inputs []string `json:"inputs,omitempty"`
}

var c04Alpha = []string{"aa", "bb", "cc", "_", "^", ".", ">", "<"}
var c04AlphaRoot = []string{"aa", "bb", "root", "_", "^", ".", ">", "<"}

func navApp() *app.App {
	a := app.New("nav-halt")
	for _, n := range []string{"root", "aa", "bb", "cc", "_catch"} {
		a.Node(n, "node "+n, codec.Ins{Op: codec.HALT})
	}
	a.FlagCount = 1
	return a
}

func posString(st *state.State) string {
	return fmt.Sprintf("%s@%d", strings.Join(st.ExecPath, "/"), st.SizeIdx)
}

// c04Seq runs one move sequence through one route and compares with the table after every move.
// visit is called with every position reached.
func c04Seq(route string, moves []string, visit func(*ref.Nav)) (sig, msg string, steps int) {
	defer func() {
		if r := recover(); r != nil {
			sig, msg = "panic-"+route, fmt.Sprintf("moves %v via %s panicked: %v", moves, route, r)
		}
	}()
	a := navApp()
	env := app.NewEnv()
	rs := &app.Res{App: a, Env: env}
	st := state.NewState(1)
	ca := cache.NewCache()
	v := vm.NewVm(st, rs, ca, nil)
	ctx := context.Background()
	if _, err := v.Run(ctx, codec.Encode([]codec.Ins{{Op: codec.MOVE, Sym: "root"}})); err != nil {
		return "entry-move-failed", err.Error(), 0
	}
	m := &ref.Nav{}
	m.Move("root")
	for k, mv := range moves {
		steps++
		before := m.Clone()
		res, idxFree := m.Move(mv)
		var code []byte
		switch route {
		case "MOVE":
			code = codec.Encode([]codec.Ins{{Op: codec.MOVE, Sym: mv}})
		case "CATCH":
			code = codec.Encode([]codec.Ins{{Op: codec.CATCH, Sym: mv, N: 8, Mode: false}})
		case "INCMP":
			st.SetInput([]byte("1"))
			code = codec.Encode([]codec.Ins{{Op: codec.INCMP, Sym: mv, Sel: "1"}})
		}
		_, err := v.Run(ctx, code)
		where := fmt.Sprintf("move %d (%s via %s) from %s@%d", k, mv, route, before.Path(), before.Idx)
		switch res {
		case ref.NavFailUndefined:
			if err == nil {
				return "up-at-entry-succeeds-" + route, fmt.Sprintf("%s: '_' at the entry node reports no error; now at %s", where, posString(st)), steps
			}
			return "", "", steps
		case ref.NavFail:
			if route == "INCMP" && before.Top() == "_catch" {
				// unmatched input at the catch node itself: a well-formed catch node matches everything; not constrained
				return "", "", steps
			}
			if route == "INCMP" {
				// a 'previous' request on the first page counts as no match: the session goes to the catch node
				m.Move("_catch")
				if err != nil {
					return "prev-at-first-page-errors", fmt.Sprintf("%s: error %v instead of the catch node", where, err), steps
				}
			} else if err == nil {
				return "prev-at-index0-succeeds-" + route, fmt.Sprintf("%s: '<' at index 0 reports no error; now at %s", where, posString(st)), steps
			}
		default:
			if err != nil {
				return "move-fails-" + route, fmt.Sprintf("%s: unexpected error %v", where, err), steps
			}
		}
		if idxFree {
			m.Idx = st.SizeIdx
		}
		if strings.Join(st.ExecPath, "/") != m.Path() {
			return "stack-differs-" + route, fmt.Sprintf("%s: stack is %s, table says %s", where, strings.Join(st.ExecPath, "/"), m.Path()), steps
		}
		if st.SizeIdx != m.Idx {
			return "index-differs-" + route, fmt.Sprintf("%s: page index is %d, table says %d (stack %s)", where, st.SizeIdx, m.Idx, m.Path()), steps
		}
		w, wi := st.Where()
		if w != m.Top() || wi != m.Idx || st.Depth() != len(m.Stack)-1 {
			return "where-differs-" + route, fmt.Sprintf("%s: Where()=(%s,%d) Depth()=%d, table says (%s,%d) depth %d", where, w, wi, st.Depth(), m.Top(), m.Idx, len(m.Stack)-1), steps
		}
		if int(ca.Levels()) != len(m.Stack)+1 {
			return "cache-levels-differ-" + route, fmt.Sprintf("%s: cache has %d levels for a stack of %d", where, ca.Levels(), len(m.Stack)), steps
		}
		if visit != nil {
			visit(m)
		}
	}
	return "", "", steps
}

// navigator application for the engine level
var c04Sel = map[string]string{"1": "aa", "2": "bb", "3": "_", "4": "^", "5": ".", "6": ">", "7": "<"}
var c04SelOrder = []string{"1", "2", "3", "4", "5", "6", "7"}

func navigatorApp() *app.App {
	a := app.New("navigator")
	for _, n := range []string{"root", "aa", "bb"} {
		code := []codec.Ins{{Op: codec.HALT}}
		for _, s := range c04SelOrder {
			if c04Sel[s] == n {
				continue
			}
			code = append(code, codec.Ins{Op: codec.INCMP, Sym: c04Sel[s], Sel: s})
		}
		a.Node(n, "node "+n, code...)
	}
	a.Node("_catch", "catch", codec.Ins{Op: codec.HALT}, codec.Ins{Op: codec.INCMP, Sym: "_", Sel: "*"})
	a.WithInputs("1", "2", "3", "4", "5", "6", "7", "9")
	return a
}

// c04History serves one input history on the navigator and compares the position after every request.
func c04History(mode string, inputs []string, visit func(*ref.Nav)) (sig, msg string, steps int) {
	a := navigatorApp()
	var s *app.Session
	// mode = long-lived | persisted, optionally +flush (Persister.WithFlush) and/or +reset
	// (engine.Config.ResetOnEmptyInput: an empty input restarts the session at the entry node)
	origMode := mode
	reset := strings.Contains(mode, "+reset")
	flush := strings.Contains(mode, "+flush")
	a.First = strings.Contains(mode, "+first") // engine.WithFirst with a function that does nothing
	mode = strings.SplitN(mode, "+", 2)[0]
	if mode == "long-lived" {
		s = app.NewSession(a, engine.Config{ResetOnEmptyInput: reset}, app.LongLived)
	} else {
		s = app.NewSession(a, engine.Config{SessionId: "s1", ResetOnEmptyInput: reset}, app.Persisted)
		s.Open = app.MemStore()
		s.FinishOnError = true
		s.Flush = flush
	}
	refusing := strings.Contains(origMode, "+refusingfirst")
	if refusing {
		// a first function that refuses the request when the input is "8" (sets TERMINATE, as an
		// authentication check would): such a request leaves the position where it is
		s.First = func(ctx context.Context, sym string, input []byte) (resource.Result, error) {
			if string(input) == "8" {
				return resource.Result{Content: "no", FlagSet: []uint32{6}}, nil
			}
			return resource.Result{}, nil
		}
	}
	m := &ref.Nav{}
	r := s.Request([]byte(""))
	steps++
	if r.Panic != "" || r.ExecErr != "" {
		return "first-request-fails", fmt.Sprintf("%s%s", r.Panic, r.ExecErr), steps
	}
	m.Move("root")
	pos := func() (string, uint16, bool) {
		if mode == "long-lived" {
			return strings.Join(s.St.ExecPath, "/"), s.St.SizeIdx, true
		}
		st, _, _, err := s.Snapshot()
		if err != nil {
			return err.Error(), 0, false
		}
		return strings.Join(st.ExecPath, "/"), st.SizeIdx, true
	}
	for k, in := range inputs {
		before := m.Clone()
		var res ref.NavResult
		idxFree := false
		atCatch := m.Top() == "_catch"
		target, offered := c04Sel[in]
		if atCatch {
			target, offered = "_", true
		} else if offered && target == m.Top() {
			offered = false
		}
		if refusing && in == "8" {
			r := s.Request([]byte(in))
			steps++
			p, i, ok := pos()
			if r.Panic != "" || r.ExecErr != "" || !ok || p != m.Path() || i != m.Idx {
				return "refused-request-moves-engine", fmt.Sprintf("%s request %d input %q refused by the first function at %s@%d: %s%s; now at %s@%d", origMode, k+1, in, m.Path(), m.Idx, r.Panic, r.ExecErr, p, i), steps
			}
			continue
		}
		if reset && in == "" {
			*m = ref.Nav{}
			m.Move("root")
			res, idxFree = ref.NavOK, false
		} else if offered {
			res, idxFree = m.Move(target)
			if res == ref.NavFail {
				m.Move("_catch")
			}
		} else {
			m.Move("_catch")
		}
		r := s.Request([]byte(in))
		steps++
		where := fmt.Sprintf("%s request %d input %q from %s@%d", mode, k+1, in, before.Path(), before.Idx)
		if r.Panic != "" {
			return "panic-engine", fmt.Sprintf("%s: panic %s", where, r.Panic), steps
		}
		if offered && res == ref.NavFailUndefined {
			if r.ExecErr == "" {
				p, i, _ := pos()
				return "up-at-entry-succeeds-engine", fmt.Sprintf("%s: '_' at the entry node reports no error; now at %s@%d", where, p, i), steps
			}
			return "", "", steps
		}
		if r.ExecErr != "" {
			return "request-fails-engine", fmt.Sprintf("%s: Exec error %s", where, r.ExecErr), steps
		}
		p, i, ok := pos()
		if !ok {
			return "snapshot-unreadable", fmt.Sprintf("%s: %s", where, p), steps
		}
		if idxFree {
			m.Idx = i
		}
		if p != m.Path() {
			return "stack-differs-engine", fmt.Sprintf("%s: stack is %s, table says %s", where, p, m.Path()), steps
		}
		if i != m.Idx {
			return "index-differs-engine", fmt.Sprintf("%s: page index is %d, table says %d (stack %s)", where, i, m.Idx, m.Path()), steps
		}
		if visit != nil {
			visit(m)
		}
		if r.FlushErr != "" && mode == "long-lived" {
			// a long-lived engine cannot be continued after a failed render (see DESIGN, C07/C08)
			return "", "", steps
		}
	}
	return "", "", steps
}

func c04Replay(w json.RawMessage) (string, string) {
	var wit c04Witness
	if err := json.Unmarshal(w, &wit); err != nil {
		return "bad-witness", err.Error()
	}
	if wit.Part == "vm" {
		s, m, _ := c04Seq(wit.Route, wit.Moves, nil)
		return s, m
	}
	s, m, _ := c04History(wit.Mode, wit.Inputs, nil)
	return s, m
}

func c04Run(c *mc.Ctx) {
	depth, hdepth := 6, 5
	if c.Thorough() {
		depth, hdepth = 8, 7
	}
	c.Note("vm_depth", fmt.Sprint(depth))
	c.Note("engine_depth", fmt.Sprint(hdepth))
	visit := func(m *ref.Nav) {
		k := fmt.Sprintf("%s@%d", m.Path(), m.Idx)
		c.Distinct("states", k)
		if len(m.Stack) >= 2 || m.Idx > 0 {
			c.Distinct("nontrivial", k)
		}
	}
	// part A; second pass: graphs with an edge back to the entry node (the entry node below itself on the stack), only
	// the sequences that use that edge (the others are those of the first pass)
	for ai, c04Alpha := range [][]string{c04Alpha, c04AlphaRoot} {
		depth := depth
		if ai == 1 && c.Thorough() {
			depth--
		}
		for _, route := range []string{"MOVE", "INCMP", "CATCH"} {
			for _, m0 := range c04Alpha {
				for _, m1 := range c04Alpha {
					if !c.Mine() {
						continue
					}
					seq := []string{m0, m1}
					var rec func()
					rec = func() {
						// prune with the table: skip self-moves, stop after an undefined failure
						nm := &ref.Nav{}
						nm.Move("root")
						for i, mv := range seq {
							if mv == nm.Top() {
								return
							}
							res, _ := nm.Move(mv)
							if res == ref.NavFail && route == "INCMP" {
								nm.Move("_catch")
							}
							if res == ref.NavFailUndefined && i < len(seq)-1 {
								return // longer sequences with this prefix end at the failure: already covered by the shorter one
							}
							if res == ref.NavFailUndefined {
								break
							}
						}
						ended := false
						{
							t := &ref.Nav{}
							t.Move("root")
							for _, mv := range seq {
								if r, _ := t.Move(mv); r == ref.NavFailUndefined {
									ended = true
								} else if r == ref.NavFail && route == "INCMP" {
									t.Move("_catch")
								}
							}
						}
						if len(seq) == depth || ended {
							if ai == 1 && !strings.Contains(" "+strings.Join(seq, " ")+" ", " root ") {
								return
							}
							sig, msg, steps := c04Seq(route, seq, visit)
							c.Count("evaluations", 1)
							c.Count("transitions", int64(steps))
							if sig != "" {
								c.Fail(sig, msg, c04Witness{Part: "vm", Route: route, Moves: append([]string(nil), seq...)})
							}
							if c.Item()%64 == 0 && len(seq) == depth {
								c.Sample(map[string]any{"route": route, "moves": strings.Join(seq, " ")})
							}
							return
						}
						for _, mv := range c04Alpha {
							seq = append(seq, mv)
							rec()
							seq = seq[:len(seq)-1]
						}
					}
					rec()
					if c.TimeUp() {
						return
					}
				}
			}
		}
	}
	// part B, directed: down to the deepest level the stack allows (128 descents), then repeats, lateral moves and
	// one ascent there - with and without a first function, whose excursion has no room left on the stack
	if c.Mine() {
		var deep []string
		for i := 0; i < 128; i++ {
			deep = append(deep, []string{"1", "2"}[i%2])
		}
		deep = append(deep, "5", "6", "5", "7", "3", "5", "1", "5")
		for _, mode := range []string{"persisted+first", "persisted", "long-lived"} {
			sig, msg, steps := c04History(mode, deep, visit)
			c.Count("evaluations", 1)
			c.Count("engine_histories", 1)
			c.Count("transitions", int64(steps))
			if sig != "" {
				c.Fail(sig, msg, c04Witness{Part: "engine", Mode: mode, Inputs: deep})
			}
		}
	}
	// part B
	a := navigatorApp()
	for _, mode := range []string{"long-lived", "persisted", "persisted+flush", "persisted+first", "persisted+refusingfirst", "long-lived+reset", "persisted+reset"} {
		inputs := a.Inputs
		hdepth := hdepth
		if strings.Contains(mode, "+reset") {
			inputs = append(append([]string{}, inputs...), "")
		}
		if strings.Contains(mode, "+refusingfirst") {
			inputs = append(append([]string{}, inputs...), "8")
		}
		if strings.Contains(mode, "+") && c.Thorough() {
			hdepth--
		}
		for _, i0 := range inputs {
			for _, i1 := range inputs {
				if !c.Mine() {
					continue
				}
				hist := []string{i0, i1}
				var rec func()
				rec = func() {
					if len(hist) == hdepth {
						sig, msg, steps := c04History(mode, hist, visit)
						c.Count("evaluations", 1)
						c.Count("engine_histories", 1)
						c.Count("transitions", int64(steps))
						if sig != "" {
							c.Fail(sig, msg, c04Witness{Part: "engine", Mode: mode, Inputs: append([]string(nil), hist...)})
						}
						return
					}
					for _, in := range inputs {
						hist = append(hist, in)
						rec()
						hist = hist[:len(hist)-1]
					}
				}
				rec()
				if c.TimeUp() {
					return
				}
			}
		}
	}
	c.Sample(map[string]any{"engine_app": a.Describe(), "history": "all input sequences over " + strings.Join(a.Inputs, ",")})
}
