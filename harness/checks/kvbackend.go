package checks

import (
	"bytes"
	"context"
	"fmt"
	"hash/fnv"
	"os"
	"path/filepath"
	"reflect"
	"sort"
	"strconv"
	"sync/atomic"

	"git.defalsify.org/vise.git/db"
	fsdb "git.defalsify.org/vise.git/db/fs"
	memdb "git.defalsify.org/vise.git/db/mem"
	"git.defalsify.org/vise.git/lang"

	"verif/mc"
	"verif/ref"
)

// Storage backends under test for C10/C11.
//
// A kvBackend creates one fresh kvStore per execution. A kvStore hands out handles onto the SAME
// underlying storage: for fs every open() is a new fsDb on the same directory, for mem the content
// lives in the handle so open() returns that one handle (independent()==false).
//
// To add Postgres over the in-process fake (package verif/pgfake): write a pgStore implementing
// kvStore (open = postgres.NewPgDb().WithConnection(<new pool/conn onto the same fake server>),
// raw = the fake's table content as sorted key/value pairs, hkey = kvHandleKey(h) plus the pgDb
// fields that outlive a call (tx == nil, multi, it == nil), cleanup = drop the fake) and append
// kvBackend{Name: "pgfake", New: newPgStore} to kvBackends(). Nothing else changes: C10 and C11
// iterate over kvBackends().

type kvStore interface {
	// open returns a connected handle with a fresh (default) context.
	open() (db.Db, error)
	// independent reports whether each open() yields a separate handle (own sticky context).
	independent() bool
	// raw returns a canonical rendering of everything stored, read back without going through a
	// handle (directory listing + file bytes / map content). Used only as state identity, never by an oracle.
	raw() (string, bool)
	// hkey renders the private sticky state of a handle of this store (state identity for C10 Part B only);
	// ok=false if it cannot be read with the expected layout (the backend is then left out of Part B).
	hkey(h db.Db) (string, bool)
	// names lists the raw entry names in the order the backend itself would enumerate them ("" if not applicable).
	names() []string
	cleanup()
}

type kvBackend struct {
	Name    string
	Kind    string // mem | fs | pg
	Binary  bool   // fs binary-key mode
	HasDump bool   // listing implemented and constrained by C10
	New     func() kvStore
}

func kvBackends() []kvBackend {
	return []kvBackend{
		{Name: "mem", Kind: "mem", New: newMemStore},
		{Name: "fs", Kind: "fs", HasDump: true, New: func() kvStore { return newFsStore(false) }},
		{Name: "fsbin", Kind: "fs", Binary: true, HasDump: true, New: func() kvStore { return newFsStore(true) }},
		{Name: "pgfake", Kind: "pg", New: newPgStore},
	}
}

func kvBackendByName(n string) (kvBackend, bool) {
	for _, b := range kvBackends() {
		if b.Name == n {
			return b, true
		}
	}
	return kvBackend{}, false
}

// ---- mem

type memStore struct{ h db.Db }

func newMemStore() kvStore {
	m := memdb.NewMemDb()
	m.Connect(context.Background(), "")
	return &memStore{h: m}
}

func (s *memStore) open() (db.Db, error) { return s.h, nil }
func (s *memStore) independent() bool    { return false }
func (s *memStore) cleanup()             {}
func (s *memStore) names() []string      { return nil }

func (s *memStore) hkey(h db.Db) (string, bool) {
	if !kvHandleExtraOK(h, "DbBase", "store") {
		return "", false
	}
	return kvHandleKey(h)
}

func (s *memStore) raw() (out string, ok bool) {
	defer func() {
		if recover() != nil {
			out, ok = "", false
		}
	}()
	v := reflect.ValueOf(s.h)
	if v.Kind() == reflect.Ptr {
		v = v.Elem()
	}
	st := v.FieldByName("store")
	if !st.IsValid() || st.Kind() != reflect.Map {
		return "", false
	}
	var ents []string
	it := st.MapRange()
	for it.Next() {
		ents = append(ents, it.Key().String()+"="+strconv.Quote(string(it.Value().Bytes())))
	}
	sort.Strings(ents)
	var sb bytes.Buffer
	for _, e := range ents {
		sb.WriteString(e)
		sb.WriteByte('\n')
	}
	return sb.String(), true
}

// ---- fs

type fsStore struct {
	root   string // per-execution directory (removed by cleanup)
	dir    string // the db directory, two levels below root so that a name with one ".." stays inside root
	binary bool
}

var fsStoreSeq uint64

func newFsStore(binary bool) kvStore {
	n := atomic.AddUint64(&fsStoreSeq, 1)
	root := filepath.Join(mc.Scratch(), "x"+strconv.FormatUint(n, 36))
	dir := filepath.Join(root, "g", "d")
	if err := os.MkdirAll(dir, 0o700); err != nil {
		panic(err)
	}
	return &fsStore{root: root, dir: dir, binary: binary}
}

func (s *fsStore) open() (db.Db, error) {
	f := fsdb.NewFsDb()
	if s.binary {
		f = f.WithBinary()
	}
	if err := f.Connect(context.Background(), s.dir); err != nil {
		return nil, err
	}
	return f, nil
}

func (s *fsStore) independent() bool { return true }
func (s *fsStore) cleanup() {
	os.RemoveAll(s.root)
	if os.Getenv("VERIF_SCRATCH") == "" {
		// replay outside a worker: mc.Scratch() made a per-process directory nobody else removes
		os.Remove(filepath.Dir(s.root))
	}
}

func (s *fsStore) hkey(h db.Db) (string, bool) {
	// dir is the per-execution path; elements/matchPrefix are rewritten by Dump before they are read; binary is fixed per backend
	if !kvHandleExtraOK(h, "DbBase", "dir", "elements", "matchPrefix", "binary") {
		return "", false
	}
	return kvHandleKey(h)
}

func (s *fsStore) names() []string {
	ents, err := os.ReadDir(s.dir)
	if err != nil {
		return nil
	}
	out := make([]string, len(ents))
	for i, e := range ents {
		out[i] = e.Name()
	}
	return out
}

func (s *fsStore) raw() (string, bool) {
	var sb bytes.Buffer
	var walk func(d, rel string) bool
	walk = func(d, rel string) bool {
		ents, err := os.ReadDir(d)
		if err != nil {
			return false
		}
		for _, e := range ents {
			if e.IsDir() {
				sb.WriteString(rel + e.Name() + "/\n")
				if !walk(filepath.Join(d, e.Name()), rel+e.Name()+"/") {
					return false
				}
				continue
			}
			b, err := os.ReadFile(filepath.Join(d, e.Name()))
			if err != nil {
				return false
			}
			sb.WriteString(rel + e.Name() + "=" + strconv.Quote(string(b)) + "\n")
		}
		return true
	}
	// the whole per-execution root, so that an entry that left the db directory is still part of the state
	if !walk(s.root, "") {
		return "", false
	}
	return sb.String(), true
}

// kvHandleKey renders the private sticky context of a handle (db.DbBase: prefix, session, lock mask,
// language, seal) by reflection. It is used only as state identity for pruning, never by an oracle.
// ok=false when the layout is not the expected one (pruning is then switched off).
func kvHandleKey(h db.Db) (out string, ok bool) {
	defer func() {
		if recover() != nil {
			out, ok = "", false
		}
	}()
	v := reflect.ValueOf(h)
	if v.Kind() == reflect.Ptr {
		v = v.Elem()
	}
	bf := v.FieldByName("DbBase")
	if !bf.IsValid() {
		return "", false
	}
	if bf.Kind() == reflect.Ptr {
		bf = bf.Elem()
	}
	bb := bf.FieldByName("baseDb")
	if !bb.IsValid() {
		return "", false
	}
	if bb.Kind() == reflect.Ptr {
		bb = bb.Elem()
	}
	want := map[string]bool{"pfx": true, "sid": true, "lock": true, "lang": true, "seal": true, "connStr": true}
	if bb.NumField() != len(want) {
		return "", false
	}
	for i := 0; i < bb.NumField(); i++ {
		if !want[bb.Type().Field(i).Name] {
			return "", false
		}
	}
	lg := "nil"
	if l := bb.FieldByName("lang"); !l.IsNil() {
		lg = "code=" + l.Elem().FieldByName("Code").String()
	}
	return fmt.Sprintf("pfx=%d sid=%q lock=%d seal=%v lang=%s", bb.FieldByName("pfx").Uint(), string(bb.FieldByName("sid").Bytes()),
		bb.FieldByName("lock").Uint(), bb.FieldByName("seal").Bool(), lg), true
}

// kvHandleExtraOK checks that the handle struct has no fields beyond the listed ones (whose
// irrelevance to future behaviour, or coverage by hkey/raw, is argued where it is called).
func kvHandleExtraOK(h db.Db, fields ...string) (ok bool) {
	defer func() {
		if recover() != nil {
			ok = false
		}
	}()
	v := reflect.ValueOf(h)
	if v.Kind() == reflect.Ptr {
		v = v.Elem()
	}
	allowed := map[string]bool{}
	for _, f := range fields {
		allowed[f] = true
	}
	for i := 0; i < v.NumField(); i++ {
		if !allowed[v.Type().Field(i).Name] {
			return false
		}
	}
	return true
}

func hash64(s string) uint64 {
	h := fnv.New64a()
	h.Write([]byte(s))
	return h.Sum64()
}

// ---- applying operations

var kvLangs = map[string]*lang.Language{}

func init() {
	for _, c := range []string{"nor", "swa", "eng"} {
		l, err := lang.LanguageFromCode(c)
		if err != nil {
			panic(err)
		}
		ll := l
		kvLangs[l.Code] = &ll
		if l.Code != c {
			panic("language code " + c + " normalised to " + l.Code)
		}
	}
}

type kvPair struct{ K, V string }

// kvObs is what one operation on a handle showed.
type kvObs struct {
	Err      error
	NotFound bool // Err != nil && db.IsNotFound(Err)
	Val      []byte
	List     []kvPair // drained Dump
	Panic    string
	// Clobber: the call wrote into the caller's key buffer beyond the key ("" = it did not)
	Clobber string
}

// kvKeyBuf hands the key to the backend the way a caller that cuts keys out of a larger buffer does: a
// slice with spare capacity, the bytes behind it belonging to the caller. check reports what changed.
func kvKeyBuf(k string) (key []byte, check func() string) {
	const tail = 12
	buf := make([]byte, len(k)+tail)
	copy(buf, k)
	for i := len(k); i < len(buf); i++ {
		buf[i] = 0xa5
	}
	return buf[:len(k)], func() string {
		if string(buf[:len(k)]) != k {
			return fmt.Sprintf("the key itself changed from %q to %q", k, buf[:len(k)])
		}
		for i := len(k); i < len(buf); i++ {
			if buf[i] != 0xa5 {
				return fmt.Sprintf("the %d bytes behind the key (all 0xa5) now read %q", tail, buf[len(k):])
			}
		}
		return ""
	}
}

func scribble(b []byte) {
	for i := range b {
		b[i] = '#'
	}
}

func kvApply(h db.Db, o ref.KVOp) (obs kvObs) {
	defer func() {
		if r := recover(); r != nil {
			obs.Panic = fmt.Sprint(r)
		}
	}()
	ctx := context.Background()
	switch o.Op {
	case "prefix":
		h.SetPrefix(o.Typ)
	case "session":
		h.SetSession(string(o.Sess))
	case "lang":
		if o.Lang == "" {
			h.SetLanguage(nil)
		} else {
			l := *kvLangs[o.Lang]
			h.SetLanguage(&l)
		}
	case "lock":
		obs.Err = h.SetLock(o.Typ, o.On)
	case "put":
		key, chk := kvKeyBuf(string(o.Key))
		val := []byte(o.Val)
		obs.Err = h.Put(ctx, key, val)
		obs.Clobber = chk()
		scribble(val) // the caller reuses its value buffer after the call
	case "get":
		key, chk := kvKeyBuf(string(o.Key))
		var v []byte
		v, obs.Err = h.Get(ctx, key)
		obs.Clobber = chk()
		if obs.Err != nil {
			obs.NotFound = db.IsNotFound(obs.Err)
		} else {
			obs.Val = append([]byte{}, v...)
			scribble(v) // ... and does what it likes with the slice it was given
		}
	case "dump":
		d, err := h.Dump(ctx, []byte(o.Key))
		obs.Err = err
		if err != nil {
			obs.NotFound = db.IsNotFound(err)
			return
		}
		if d == nil {
			return
		}
		for n := 0; n < 100000; n++ {
			k, v := d.Next(ctx)
			if k == nil {
				break
			}
			obs.List = append(obs.List, kvPair{string(k), string(v)})
		}
		d.Close()
	}
	return
}
