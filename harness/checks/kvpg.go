package checks

import (
	"bytes"
	"reflect"
	"sort"
	"strconv"

	"git.defalsify.org/vise.git/db"

	"verif/pgfake"
)

// Postgres backend over the in-process transactional fake, for C10/C11.

type pgStore struct{ srv *pgfake.Server }

func newPgStore() kvStore { return &pgStore{srv: pgfake.NewServer()} }

func (s *pgStore) open() (db.Db, error) { return pgfake.Open(s.srv), nil }
func (s *pgStore) independent() bool    { return true }
func (s *pgStore) cleanup()             {}
func (s *pgStore) names() []string      { return nil }

func (s *pgStore) raw() (string, bool) {
	m := s.srv.Committed()
	ks := make([]string, 0, len(m))
	for k := range m {
		ks = append(ks, k)
	}
	sort.Strings(ks)
	var sb bytes.Buffer
	for _, k := range ks {
		sb.WriteString(strconv.Quote(k) + "=" + strconv.Quote(string(m[k])) + "\n")
	}
	return sb.String(), true
}

func (s *pgStore) hkey(h db.Db) (out string, ok bool) {
	defer func() {
		if recover() != nil {
			out, ok = "", false
		}
	}()
	base, ok := kvHandleKey(h)
	if !ok {
		return "", false
	}
	v := reflect.ValueOf(h)
	if v.Kind() == reflect.Ptr {
		v = v.Elem()
	}
	tx, multi, it := v.FieldByName("tx"), v.FieldByName("multi"), v.FieldByName("it")
	if !tx.IsValid() || !multi.IsValid() || !it.IsValid() {
		return "", false
	}
	return base + " tx=" + strconv.FormatBool(!tx.IsNil()) + " multi=" + strconv.FormatBool(multi.Bool()) + " it=" + strconv.FormatBool(!it.IsNil()), true
}
