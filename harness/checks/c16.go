package checks

import (
	"bytes"
	"encoding/json"
	"errors"
	"fmt"
	"os"
	"os/exec"
	"path/filepath"
	"runtime/debug"
	"strconv"
	"strings"
	"sync"

	"git.defalsify.org/vise.git/asm"

	"verif/codec"
	"verif/mc"
)

// C16 — the assembler emits exactly the instructions that were written (translation validation).
//
// Sources are generated from an AST (ordinary instructions as codec.Ins, batch menu lines as
// keyword/target/selector/label), rendered to assembly text by the printer below (argument order
// taken from doc/texinfo/instructions.texi), assembled with asm.Parse and the bytecode decoded
// with the harness's own strict decoder. What "was written" is therefore known without parsing.

func init() {
	register(&mc.Check{
		ID:    "C16",
		Level: "translation_validation",
		Rule: "assembly sources generated from an AST and rendered with the harness's own printer: (F1) every single line: 12 opcodes + DOWN/UP/NEXT/PREVIOUS x argument pools (symbols aa,foo,a_1,Zz9; nodes also _ . ^ < > and _catch; labels bb,to_foo,x_1,Back; selectors 0,1,00,01,007,10,a,ab,a1,1a,0a,*,aB,B,1B,2^32-1,2^32; sizes/signals 0,1,255,256,65535,65536,2^24-1,2^24,2^32-1; modes 0,1); " +
			"(F2) all programs of 2..3 (quick) / 2..4 (thorough) lines over a 40-line pool; (F3) all sequences (any order, repetition allowed) of <=3 (quick) / <=4 (thorough) batch lines over a 12-line batch pool after 0..1 ordinary lines; (F4) sources [pre] G1 sep [G2] [post] and G1 sep G2 sep G3 with batch groups of 1..2 lines separated by ordinary lines; (F6) 255/256-byte symbols in every string position; " +
			"each in the layouts plain, trailing-space, trailing-comment, interior-blank-line, tabs/multi-space, CRLF, and (F5, counted only, single lines and 2-line programs) leading blank line, comment-only first/interior line, whitespace-only line, missing final newline, indentation; (F7) 186 sources free of known-altered selector forms through the dev/asm command built from the same tree, without and with the -f flag-name preprocessor (CATCH/CROAK with flag names). " +
			"The bytecode is decoded by codec.Decode and compared field by field with the AST (batch groups expanded to MOUT/MNEXT/MPREV.. HALT INCMP.. per the documented table). distinct/non-trivial = (family, layout, outcome class [equal | rejected:<why> | signature], opcodes of the first two lines, line count)",
		Assumptions: []string{
			"a returned error is a violation only in the plain and trailing-space layouts and only when every line is of a form the repository's own tests/examples assemble (lower-case-initial symbols, single-character special nodes in node position, selectors that are decimal < 2^32 with or without leading zeros, lower-case-initial alphanumeric, or '*' in INCMP; numbers < 2^32; modes 0/1; batch lines at the end of the source); otherwise the rejection is only counted",
			"sources the unchanged parser rejects (leading blank line, comment-only line, whitespace-only line, no final newline, capital-initial symbol/label/selector, numeric selector >= 2^32) are counted under rejected_*, never asserted; if a tree accepts them the output is compared like any other",
			"a batch group followed by ordinary lines is treated as valid source because asm.Parse deliberately flushes the pending group before the next ordinary instruction and reports no error (instructions.texi says batch lines must be at the end of a node's code); expected output = expansion at the position of the group",
			"a source naming a symbol longer than 255 bytes cannot be encoded: the only asserted behaviour is that it is not silently accepted",
			"sizes and signals are compared numerically (rendered in canonical decimal); the byte count returned by asm.Parse is not part of the property",
			"a panic of asm.Parse on a source of the documented grammar is reported as a violation (no bytecode for the written lines)",
			"dev/asm is exercised as a subprocess (exit status 1 = rejected, 2 = panic); if the command cannot be built the F7 sources are skipped and counted under cli_sources_skipped",
		},
		Run:      c16Run,
		Replay:   c16Replay,
		MinItems: 1000,
	})
}

// c16Line is one source line of the AST.
type c16Line struct {
	B      string    `json:"b,omitempty"`      // batch keyword DOWN|UP|NEXT|PREVIOUS; "" = ordinary instruction
	I      codec.Ins `json:"i"`                // ordinary: the instruction; batch: Sym = label, Sel = selector
	Target string    `json:"target,omitempty"` // DOWN only: the node to descend to
	Flag   string    `json:"flag,omitempty"`   // CATCH/CROAK through the dev/asm preprocessor: the signal is written as this flag name (I.N holds its value)
}

type c16Witness struct {
	Lines  []c16Line `json:"lines"`
	Layout string    `json:"layout"`
	Route  string    `json:"route,omitempty"` // "" = asm.Parse in process; "cli" = dev/asm <file>; "cli-pp" = dev/asm -f <flags.csv> <file>
	Src    string    `json:"src"`             // rendered text, informational (Replay re-renders from Lines+Layout)
	// Prev is the source handed to asm.Parse immediately before this one in the same process. Replay
	// assembles it first: an assembler that keeps state between calls (a scratch buffer that survives a
	// rejected source, say) emits bytes that depend on it.
	Prev string `json:"previous_source_in_this_process,omitempty"`
}

var c16PrevSrc, c16LastSrc string

// ---- printer (argument order per doc/texinfo/instructions.texi) ---------------------------------

// c16PadNum makes the printer write sizes and signals with a leading zero ("010" for 10): an author may
// write numbers that way and means the decimal value.
var c16PadNum bool

func c16Tokens(l c16Line) []string {
	if l.B == "DOWN" {
		return []string{"DOWN", l.Target, l.I.Sel, l.I.Sym} // DOWN <symbol> <selector> <label>
	}
	if l.B != "" {
		return []string{l.B, l.I.Sel, l.I.Sym} // UP|NEXT|PREVIOUS <selector> <label>
	}
	i := l.I
	mode := "0"
	if i.Mode {
		mode = "1"
	}
	num := strconv.FormatUint(uint64(i.N), 10)
	if c16PadNum {
		num = "0" + num
	}
	if l.Flag != "" {
		num = l.Flag
	}
	switch i.Op {
	case codec.CATCH: // CATCH <node> <signal> <matchmode>
		return []string{"CATCH", i.Sym, num, mode}
	case codec.CROAK: // CROAK <signal> <matchmode>
		return []string{"CROAK", num, mode}
	case codec.LOAD: // LOAD <symbol> <size>
		return []string{"LOAD", i.Sym, num}
	case codec.RELOAD:
		return []string{"RELOAD", i.Sym}
	case codec.MAP:
		return []string{"MAP", i.Sym}
	case codec.MOVE:
		return []string{"MOVE", i.Sym}
	case codec.INCMP: // INCMP <node> <selector>
		return []string{"INCMP", i.Sym, i.Sel}
	case codec.MOUT: // MOUT <label> <selector>
		return []string{"MOUT", i.Sym, i.Sel}
	case codec.MNEXT:
		return []string{"MNEXT", i.Sym, i.Sel}
	case codec.MPREV:
		return []string{"MPREV", i.Sym, i.Sel}
	case codec.HALT:
		return []string{"HALT"}
	case codec.MSINK:
		return []string{"MSINK"}
	}
	panic("c16: opcode outside the documented set")
}

// layouts whose rejection is asserted (for established line forms), compared layouts whose rejection
// is only counted, and layouts the unchanged parser is known to reject.
var c16Layouts = []string{"plain", "trail", "comment", "blank", "tabs", "crlf", "padnum"}
var c16ProbeLayouts = []string{"leadblank", "leadcomment", "midcomment", "wsline", "noeol", "indent"}
var c16LayoutAsserted = map[string]bool{"plain": true, "trail": true}
var c16LayoutKnownRejected = map[string]bool{"leadblank": true, "leadcomment": true, "midcomment": true, "wsline": true, "noeol": true}

var c16Comments = []string{"\t\t# menu item", " # INCMP foo 1 \"quoted\" 'x' 007 # again"}

func c16Render(lines []c16Line, layout string) string {
	c16PadNum = layout == "padnum"
	defer func() { c16PadNum = false }()
	var sb strings.Builder
	for k, l := range lines {
		t := c16Tokens(l)
		switch layout {
		case "tabs":
			for j, s := range t {
				if j > 0 {
					if (j+k)%2 == 0 {
						sb.WriteString("\t")
					} else {
						sb.WriteString("   ")
					}
				}
				sb.WriteString(s)
			}
		case "indent":
			sb.WriteString("  " + strings.Join(t, " "))
		default:
			sb.WriteString(strings.Join(t, " "))
		}
		switch layout {
		case "trail":
			sb.WriteString(" \n")
		case "comment":
			sb.WriteString(c16Comments[k%len(c16Comments)] + "\n")
		case "blank":
			sb.WriteString("\n\n")
		case "crlf":
			sb.WriteString("\r\n")
		case "midcomment":
			sb.WriteString("\n")
			if k == 0 {
				sb.WriteString("# a comment line\n")
			}
		case "wsline":
			sb.WriteString("\n")
			if k == 0 {
				sb.WriteString("  \t\n")
			}
		case "noeol":
			if k < len(lines)-1 {
				sb.WriteString("\n")
			}
		default:
			sb.WriteString("\n")
		}
	}
	switch layout {
	case "leadblank":
		return "\n" + sb.String()
	case "leadcomment":
		return "# node script\n" + sb.String()
	case "blank":
		s := sb.String()
		return s[:len(s)-1] // interior blank lines only, single final newline
	}
	return sb.String()
}

// ---- expected expansion (instructions.texi, "Batch menu expansion") -----------------------------

// c16Expand lists the instructions the source denotes. cumulative=true models an assembler that
// never forgets earlier batch lines (used only to classify a divergence).
func c16Expand(lines []c16Line, cumulative bool) []codec.Ins {
	var out, pre, post []codec.Ins
	open := false
	flush := func() {
		if !open {
			return
		}
		open = false
		out = append(out, pre...)
		out = append(out, codec.Ins{Op: codec.HALT})
		out = append(out, post...)
		if !cumulative {
			pre, post = nil, nil
		}
	}
	for _, l := range lines {
		if l.B == "" {
			flush()
			out = append(out, l.I)
			continue
		}
		open = true
		switch l.B {
		case "DOWN":
			pre = append(pre, codec.Ins{Op: codec.MOUT, Sym: l.I.Sym, Sel: l.I.Sel})
			post = append(post, codec.Ins{Op: codec.INCMP, Sym: l.Target, Sel: l.I.Sel})
		case "UP":
			pre = append(pre, codec.Ins{Op: codec.MOUT, Sym: l.I.Sym, Sel: l.I.Sel})
			post = append(post, codec.Ins{Op: codec.INCMP, Sym: "_", Sel: l.I.Sel})
		case "NEXT":
			pre = append(pre, codec.Ins{Op: codec.MNEXT, Sym: l.I.Sym, Sel: l.I.Sel})
			post = append(post, codec.Ins{Op: codec.INCMP, Sym: ">", Sel: l.I.Sel})
		case "PREVIOUS":
			pre = append(pre, codec.Ins{Op: codec.MPREV, Sym: l.I.Sym, Sel: l.I.Sel})
			post = append(post, codec.Ins{Op: codec.INCMP, Sym: "<", Sel: l.I.Sel})
		default:
			panic("c16: unknown batch keyword")
		}
	}
	flush()
	return out
}

// ---- line-form classes ---------------------------------------------------------------------------

func c16IsDigits(s string) bool {
	if s == "" {
		return false
	}
	for i := 0; i < len(s); i++ {
		if s[i] < '0' || s[i] > '9' {
			return false
		}
	}
	return true
}

func c16HasUpper(s string) bool {
	for i := 0; i < len(s); i++ {
		if s[i] >= 'A' && s[i] <= 'Z' {
			return true
		}
	}
	return false
}

// c16SelClass classifies a selector as written.
func c16SelClass(s string) string {
	switch {
	case s == "*":
		return "wild"
	case len(s) > 255:
		return "overlong"
	case c16IsDigits(s):
		if len(s) > 1 && s[0] == '0' {
			return "num-leading-zero"
		}
		if v, err := strconv.ParseUint(s, 10, 64); err != nil || v > 1<<32-1 {
			return "num-big"
		}
		return "num"
	case s[0] >= '0' && s[0] <= '9':
		if c16HasUpper(s) {
			return "digit-first-upper"
		}
		return "digit-first-letters"
	case s[0] >= 'A' && s[0] <= 'Z':
		return "upper-first"
	}
	return "alpha"
}

var c16SelEstablished = map[string]bool{"wild": true, "num": true, "num-leading-zero": true, "alpha": true}

func c16SymClass(s string, nodePos bool) string {
	switch {
	case len(s) > 255:
		return "overlong"
	case len(s) == 1 && strings.Contains("_.^<>", s):
		if nodePos {
			return "special"
		}
		return "special-as-symbol"
	case s[0] >= 'A' && s[0] <= 'Z':
		return "upper-first"
	case s[0] == '_':
		return "underscore-first"
	}
	return "plain"
}

// c16Form returns "" when every line is of a form the repository's own tests/examples assemble,
// otherwise the first reason why an error from the assembler is not asserted.
func c16Form(lines []c16Line) string {
	seenOrdinaryAfterBatch := false
	inBatch := false
	for _, l := range lines {
		if l.B != "" {
			inBatch = true
		} else if inBatch {
			seenOrdinaryAfterBatch = true
		}
		var syms []string
		node := false
		sel := ""
		if l.B != "" {
			syms = append(syms, l.I.Sym)
			sel = l.I.Sel
			if l.B == "DOWN" {
				if c := c16SymClass(l.Target, false); c != "plain" {
					return "sym-" + c
				}
			}
		} else {
			switch l.I.Op {
			case codec.CATCH, codec.MOVE, codec.INCMP:
				syms, node = append(syms, l.I.Sym), true
			case codec.LOAD, codec.RELOAD, codec.MAP, codec.MOUT, codec.MNEXT, codec.MPREV:
				syms = append(syms, l.I.Sym)
			}
			switch l.I.Op {
			case codec.INCMP, codec.MOUT, codec.MNEXT, codec.MPREV:
				sel = l.I.Sel
			}
		}
		for _, s := range syms {
			if c := c16SymClass(s, node); c != "plain" && c != "special" {
				return "sym-" + c
			}
		}
		if sel != "" {
			c := c16SelClass(sel)
			if !c16SelEstablished[c] {
				return "sel-" + c
			}
			if c == "wild" && (l.B != "" || l.I.Op != codec.INCMP) {
				return "sel-wild-in-menu-line"
			}
		}
	}
	if seenOrdinaryAfterBatch {
		return "batch-not-at-end"
	}
	return ""
}

// c16Overlong reports whether (and in which kind of line, the first one) the source names a symbol,
// selector or label that does not fit the one-byte length prefix of the bytecode format.
func c16Overlong(lines []c16Line) string {
	for _, l := range lines {
		if len(l.I.Sym) > 255 || len(l.I.Sel) > 255 || len(l.Target) > 255 {
			if l.B != "" {
				return "batch"
			}
			return "ordinary"
		}
	}
	return ""
}

func c16BatchGroups(lines []c16Line) int {
	n, in := 0, false
	for _, l := range lines {
		if l.B != "" && !in {
			n++
		}
		in = l.B != ""
	}
	return n
}

// ---- the oracle ----------------------------------------------------------------------------------

func c16Assemble(src string) (out []byte, err error, pv any) {
	defer func() {
		if r := recover(); r != nil {
			pv = r
		}
	}()
	c16PrevSrc, c16LastSrc = c16LastSrc, src
	var buf bytes.Buffer
	_, err = asm.Parse(src, &buf)
	return buf.Bytes(), err, nil
}

// ---- the command line assembler (dev/asm) ---------------------------------------------------------

// c16FlagCSV is the preprocessor data handed to dev/asm -f (format: asm.FlagParser.Load).
const c16FlagCSV = "flag,sig_a,8\nflag,sig_b,255,a description\nflag,big,65536\n"

var c16FlagValues = map[string]uint32{"sig_a": 8, "sig_b": 255, "big": 65536}

var c16CLI struct {
	once sync.Once
	bin  string // "" when the command could not be built
	why  string
}

// c16RepoDir is the source tree this binary is linked against (the replace target of the vise module).
func c16RepoDir() string {
	if bi, ok := debug.ReadBuildInfo(); ok {
		for _, d := range bi.Deps {
			if d.Path == "git.defalsify.org/vise.git" && d.Replace != nil && filepath.IsAbs(d.Replace.Path) {
				return d.Replace.Path
			}
		}
	}
	return ""
}

// c16BuildCLI builds dev/asm from that tree into this process's scratch directory (once).
func c16BuildCLI() (string, string) {
	c16CLI.once.Do(func() {
		dir := c16RepoDir()
		if dir == "" {
			c16CLI.why = "source tree of the vise module not known from build info"
			return
		}
		out := filepath.Join(mc.Scratch(), "vise-asm")
		cmd := exec.Command("go", "build", "-mod=readonly", "-o", out, "./dev/asm")
		cmd.Dir = dir
		cmd.Env = append(os.Environ(), "GOPROXY=off", "GOSUMDB=off", "GOTOOLCHAIN=local", "CGO_ENABLED=0")
		if b, err := cmd.CombinedOutput(); err != nil {
			c16CLI.why = fmt.Sprintf("go build ./dev/asm in %s: %v: %.300s", dir, err, b)
			return
		}
		if err := os.WriteFile(filepath.Join(mc.Scratch(), "c16-flags.csv"), []byte(c16FlagCSV), 0o644); err != nil {
			c16CLI.why = err.Error()
			return
		}
		c16CLI.bin = out
	})
	return c16CLI.bin, c16CLI.why
}

var errC16Rejected = errors.New("dev/asm exited with status 1")

// c16RunCLI assembles src with the command. Exit status 1 is the command's way of reporting an error,
// status 2 is a Go panic; anything else is a problem of the harness environment and panics here.
func c16RunCLI(route, src string) (out []byte, err error, pv any) {
	bin, why := c16BuildCLI()
	if bin == "" {
		panic("c16: dev/asm not available: " + why)
	}
	f := filepath.Join(mc.Scratch(), "c16-src.vis")
	if werr := os.WriteFile(f, []byte(src), 0o644); werr != nil {
		panic(werr)
	}
	args := []string{f}
	if route == "cli-pp" {
		args = []string{"-f", filepath.Join(mc.Scratch(), "c16-flags.csv"), f}
	}
	cmd := exec.Command(bin, args...)
	var so, se bytes.Buffer
	cmd.Stdout, cmd.Stderr = &so, &se
	rerr := cmd.Run()
	if rerr == nil {
		return so.Bytes(), nil, nil
	}
	var ee *exec.ExitError
	if errors.As(rerr, &ee) && ee.ExitCode() == 1 {
		return so.Bytes(), errC16Rejected, nil
	}
	if errors.As(rerr, &ee) && ee.ExitCode() == 2 {
		return so.Bytes(), nil, "dev/asm died with exit status 2 (Go panic)"
	}
	panic(fmt.Sprintf("c16: running %s: %v", bin, rerr))
}

func c16AssembleVia(route, src string) ([]byte, error, any) {
	if route == "" {
		return c16Assemble(src)
	}
	return c16RunCLI(route, src)
}

type c16Result struct {
	Sig, Msg  string
	Class     string // outcome class when there is no violation: "equal" or "rejected:<why>"
	Assembled bool   // Parse returned without error, output was compared field by field
}

func c16SameBut(a, b codec.Ins) bool { // equal apart from the selector
	a.Sel, b.Sel = "", ""
	return a == b
}

// c16SelAltered names the way a selector was altered (written w, emitted g).
func c16SelAltered(w, g string) string {
	cl := c16SelClass(w)
	canon := func(d string) string {
		t := strings.TrimLeft(d, "0")
		if t == "" {
			return "0"
		}
		return t
	}
	switch cl {
	case "num-leading-zero":
		if g == canon(w) {
			return "selector-leading-zeros-dropped"
		}
	case "digit-first-letters", "digit-first-upper":
		k := 0
		for k < len(w) && w[k] >= '0' && w[k] <= '9' {
			k++
		}
		if g == canon(w[:k]) || g == w[:k] {
			return "selector-letters-after-digits-dropped"
		}
		if g == w[k:] {
			return "selector-leading-digits-dropped"
		}
	}
	return "other-selector-altered"
}

// c16Clip keeps messages readable when a source holds a 256-byte symbol.
func c16Clip(s string) string {
	if len(s) > 700 {
		return s[:340] + " [...] " + s[len(s)-340:]
	}
	return s
}

// c16Judge assembles one source through one route and compares. Signatures observed through the
// command line routes carry the route as a suffix.
func c16Judge(lines []c16Line, layout, route string) c16Result {
	r := c16JudgeIn(lines, layout, route)
	r.Msg = c16Clip(r.Msg)
	if r.Sig != "" && route != "" {
		r.Sig += "-via-" + route
		r.Msg = "[dev/asm command, route " + route + "] " + r.Msg
	}
	return r
}

func c16JudgeIn(lines []c16Line, layout, route string) (res c16Result) {
	src := c16Render(lines, layout)
	call := "asm.Parse"
	if route != "" {
		call = "dev/asm"
	}
	out, err, pv := c16AssembleVia(route, src)
	if pv != nil {
		sig := "other-panic"
		for _, l := range lines {
			if l.B != "" && l.B != "DOWN" && strings.HasPrefix(c16SelClass(l.I.Sel), "digit-first") {
				sig = "panic-batch-digit-first-selector"
			}
		}
		return c16Result{Sig: sig, Msg: fmt.Sprintf("%s(%q) panicked: %v", call, src, pv)}
	}
	form := c16Form(lines)
	if err != nil {
		if form == "" && c16LayoutAsserted[layout] {
			return c16Result{Sig: "rejected-established-source", Msg: fmt.Sprintf("%s(%q) fails (%v); every line is of a form the repository's tests/examples assemble", call, src, err)}
		}
		if form == "" || c16LayoutKnownRejected[layout] {
			form = "layout-" + layout
		}
		return c16Result{Class: "rejected:" + form}
	}
	res.Assembled = true
	want := c16Expand(lines, false)
	if long := c16Overlong(lines); long != "" {
		sig := "overlong-symbol-accepted"
		if long == "batch" {
			sig = "overlong-symbol-accepted-in-batch-line"
		}
		return c16Result{Assembled: true, Sig: sig, Msg: fmt.Sprintf("a source with a symbol longer than 255 bytes (not encodable) in a%s line assembles without error to %d bytes starting %x; written: %.40q...", map[string]string{"batch": " batch", "ordinary": "n ordinary"}[long], len(out), out[:min(len(out), 8)], src)}
	}
	d := codec.Decode(out)
	if d.Verdict != codec.Valid {
		return c16Result{Assembled: true, Sig: "other-output-not-decodable", Msg: fmt.Sprintf("%s(%q) = %x which is not a sequence of complete instructions (%s at offset %d); written: %q", call, src, out, d.Reason, d.BadAt, codec.Listing(want))}
	}
	got := d.Prog
	describe := func() string {
		return fmt.Sprintf("source %q assembles to %q, written: %q", src, codec.Listing(got), codec.Listing(want))
	}
	structural := ""
	if len(got) != len(want) {
		structural = "instruction-count"
	} else {
		for k := range want {
			if c16SameBut(got[k], want[k]) {
				continue
			}
			switch {
			case got[k].Op != want[k].Op:
				structural = "opcode"
			case got[k].Sym != want[k].Sym:
				structural = "symbol"
			case got[k].N != want[k].N:
				structural = "number"
			default:
				structural = "mode"
			}
			break
		}
	}
	if structural != "" {
		if c16BatchGroups(lines) >= 2 {
			cum := c16Expand(lines, true)
			if len(cum) == len(got) {
				same := true
				for k := range cum {
					same = same && c16SameBut(cum[k], got[k])
				}
				if same {
					return c16Result{Assembled: true, Sig: "batch-group-repeats-earlier-lines", Msg: "a later batch group re-emits the lines of an earlier group: " + describe()}
				}
			}
		}
		return c16Result{Assembled: true, Sig: "other-" + structural + "-differs", Msg: describe()}
	}
	for k := range want {
		if got[k].Sel != want[k].Sel {
			return c16Result{Assembled: true, Sig: c16SelAltered(want[k].Sel, got[k].Sel), Msg: fmt.Sprintf("selector %q emitted as %q: %s", want[k].Sel, got[k].Sel, describe())}
		}
	}
	return c16Result{Assembled: true, Class: "equal"}
}

func c16Replay(w json.RawMessage) (string, string) {
	var wit c16Witness
	if err := json.Unmarshal(w, &wit); err != nil {
		return "bad-witness", err.Error()
	}
	switch wit.Route {
	case "", "cli", "cli-pp":
	default:
		return "bad-witness", "route"
	}
	if wit.Prev != "" && wit.Route == "" {
		c16Assemble(wit.Prev)
	}
	r := c16Judge(wit.Lines, wit.Layout, wit.Route)
	return r.Sig, r.Msg
}

// ---- pools ---------------------------------------------------------------------------------------

var c16Syms = []string{"aa", "foo", "a_1", "Zz9"}
var c16Special = []string{"_", ".", "^", "<", ">"}
var c16Labels = []string{"bb", "to_foo", "x_1", "Back"}
var c16Sels = []string{"0", "1", "00", "01", "007", "10", "a", "ab", "a1", "1a", "0a", "*", "aB", "B", "1B", "4294967295", "4294967296"}
var c16Nums = []uint32{0, 1, 255, 256, 65535, 65536, 1<<24 - 1, 1 << 24, 1<<32 - 1}

func c16Ord(i codec.Ins) c16Line { return c16Line{I: i} }
func c16Batch(kw, target, sel, label string) c16Line {
	return c16Line{B: kw, Target: target, I: codec.Ins{Sym: label, Sel: sel}}
}

// c16AllLines is family F1: every opcode and batch keyword with every argument combination of the pools.
func c16AllLines() []c16Line {
	var p []c16Line
	nodes := append(append(append([]string{}, c16Syms...), c16Special...), "_catch") // _catch: the documented builtin node name
	for _, s := range nodes {
		for _, n := range c16Nums {
			for _, m := range []bool{false, true} {
				p = append(p, c16Ord(codec.Ins{Op: codec.CATCH, Sym: s, N: n, Mode: m}))
			}
		}
		p = append(p, c16Ord(codec.Ins{Op: codec.MOVE, Sym: s}))
		for _, sel := range c16Sels {
			p = append(p, c16Ord(codec.Ins{Op: codec.INCMP, Sym: s, Sel: sel}))
		}
	}
	for _, n := range c16Nums {
		for _, m := range []bool{false, true} {
			p = append(p, c16Ord(codec.Ins{Op: codec.CROAK, N: n, Mode: m}))
		}
		for _, s := range c16Syms {
			p = append(p, c16Ord(codec.Ins{Op: codec.LOAD, Sym: s, N: n}))
		}
	}
	for _, s := range c16Syms {
		p = append(p, c16Ord(codec.Ins{Op: codec.RELOAD, Sym: s}), c16Ord(codec.Ins{Op: codec.MAP, Sym: s}))
	}
	for _, lab := range c16Labels {
		for _, sel := range c16Sels {
			for _, op := range []uint16{codec.MOUT, codec.MNEXT, codec.MPREV} {
				p = append(p, c16Ord(codec.Ins{Op: op, Sym: lab, Sel: sel}))
			}
			for _, kw := range []string{"UP", "NEXT", "PREVIOUS"} {
				p = append(p, c16Batch(kw, "", sel, lab))
			}
			for _, t := range c16Syms {
				p = append(p, c16Batch("DOWN", t, sel, lab))
			}
		}
	}
	p = append(p, c16Ord(codec.Ins{Op: codec.HALT}), c16Ord(codec.Ins{Op: codec.MSINK}))
	return p
}

// c16Pool is the 40-line pool of family F2 (ordinary instructions, every opcode, every argument kind,
// numeric arguments at line ends next to numeric/symbol line starts, a few known-delicate selectors).
func c16Pool() []c16Line {
	I := func(op uint16, sym, sel string, n uint32, m bool) c16Line {
		return c16Ord(codec.Ins{Op: op, Sym: sym, Sel: sel, N: n, Mode: m})
	}
	return []c16Line{
		I(codec.HALT, "", "", 0, false), I(codec.MSINK, "", "", 0, false),
		I(codec.MAP, "foo", "", 0, false), I(codec.MAP, "a_1", "", 0, false),
		I(codec.RELOAD, "foo", "", 0, false), I(codec.RELOAD, "aa", "", 0, false),
		I(codec.MOVE, "foo", "", 0, false), I(codec.MOVE, "_", "", 0, false), I(codec.MOVE, "^", "", 0, false),
		I(codec.MOVE, ".", "", 0, false), I(codec.MOVE, ">", "", 0, false), I(codec.MOVE, "<", "", 0, false),
		I(codec.LOAD, "foo", "", 0, false), I(codec.LOAD, "aa", "", 255, false), I(codec.LOAD, "a_1", "", 256, false),
		I(codec.LOAD, "foo", "", 65536, false), I(codec.LOAD, "foo", "", 1<<32-1, false),
		I(codec.CATCH, "foo", "", 8, true), I(codec.CATCH, "_", "", 255, false), I(codec.CATCH, "a_1", "", 65535, true), I(codec.CATCH, ".", "", 1<<24, false),
		I(codec.CROAK, "", "", 0, false), I(codec.CROAK, "", "", 11, true), I(codec.CROAK, "", "", 1<<24-1, true),
		I(codec.INCMP, "foo", "1", 0, false), I(codec.INCMP, "_", "0", 0, false), I(codec.INCMP, "^", "*", 0, false), I(codec.INCMP, ">", "11", 0, false),
		I(codec.INCMP, "<", "ab", 0, false), I(codec.INCMP, "a_1", "a1", 0, false), I(codec.INCMP, ".", "10", 0, false),
		I(codec.INCMP, "foo", "00", 0, false), I(codec.INCMP, "aa", "1a", 0, false),
		I(codec.MOUT, "foo", "0", 0, false), I(codec.MOUT, "a_1", "ab", 0, false), I(codec.MOUT, "aa", "01", 0, false),
		I(codec.MNEXT, "foo", "11", 0, false), I(codec.MNEXT, "aa", "a", 0, false),
		I(codec.MPREV, "foo", "22", 0, false), I(codec.MPREV, "a_1", "0a", 0, false),
	}
}

// c16BatchPool is the batch-line pool of family F3.
func c16BatchPool() []c16Line {
	return []c16Line{
		c16Batch("DOWN", "foo", "0", "to_foo"), c16Batch("DOWN", "a_1", "ab", "x_1"), c16Batch("DOWN", "aa", "00", "bb"), c16Batch("DOWN", "foo", "1a", "bb"),
		c16Batch("UP", "", "1", "back"), c16Batch("UP", "", "a", "back"), c16Batch("UP", "", "007", "up0"), c16Batch("UP", "", "1a", "back"),
		c16Batch("NEXT", "", "2", "fwd"), c16Batch("NEXT", "", "ab", "fwd"),
		c16Batch("PREVIOUS", "", "3", "back"), c16Batch("PREVIOUS", "", "a1", "prev"),
	}
}

// c16CleanBatch is the batch pool of family F4 (canonical selectors only, so that the only thing under
// test is which lines each group's expansion contains).
func c16CleanBatch() []c16Line {
	return []c16Line{
		c16Batch("DOWN", "foo", "0", "to_foo"), c16Batch("DOWN", "aa", "ab", "x_1"),
		c16Batch("UP", "", "1", "back"), c16Batch("NEXT", "", "2", "fwd"), c16Batch("PREVIOUS", "", "3", "prev"), c16Batch("UP", "", "a", "up_a"),
	}
}

// ---- enumeration ---------------------------------------------------------------------------------

func c16Shape(lines []c16Line) string {
	var sb strings.Builder
	for _, l := range lines {
		if l.B != "" {
			sb.WriteString(l.B[:1] + "!")
		} else {
			sb.WriteString(strconv.Itoa(int(l.I.Op)) + ",")
		}
	}
	return sb.String()
}

func c16Run(c *mc.Ctx) {
	samples := 0
	// one source: assemble, compare, record.
	var route string // "" except in family F7
	one := func(family string, lines []c16Line, layout string) {
		r := c16Judge(lines, layout, route)
		c.Count("evaluations", 1)
		c.Count("programs", 1)
		c.Count("transitions", int64(len(lines)))
		c.Count("sources_"+family, 1)
		if r.Assembled {
			c.Count("disagreements_checked", 1)
			c.Count("assembled_layout_"+layout, 1)
		}
		if r.Sig != "" {
			c.Fail(r.Sig, r.Msg, c16Witness{Lines: lines, Layout: layout, Route: route, Src: c16Clip(c16Render(lines, layout)), Prev: c16PrevSrc})
			c.Distinct("nontrivial", family, layout, r.Sig)
			return
		}
		if strings.HasPrefix(r.Class, "rejected:") {
			c.Count("rejected_not_asserted", 1)
			c.Count("rejected_"+strings.TrimPrefix(r.Class, "rejected:"), 1)
			c.Distinct("nontrivial", family, layout, r.Class)
			return
		}
		c.Count("equal", 1)
		// outcome classes: by family, layout and opcode tuple for short programs, by first two opcodes otherwise
		sh := lines
		if len(sh) > 2 {
			sh = sh[:2]
		}
		c.Distinct("nontrivial", family, layout, "equal", c16Shape(sh), strconv.Itoa(len(lines)))
		if samples < 2 && len(lines) >= 2 && layout == "comment" && !strings.HasPrefix(family, "F6") {
			samples++
			c.Sample(map[string]any{"family": family, "layout": layout, "source": c16Render(lines, layout), "assembled_and_written": codec.Listing(c16Expand(lines, false))})
		}
	}
	all := func(family string, lines []c16Line) {
		for _, lay := range c16Layouts {
			one(family, lines, lay)
		}
	}
	probes := func(family string, lines []c16Line) {
		for _, lay := range c16ProbeLayouts {
			one(family, lines, lay)
		}
	}

	// F1: every single line, in every layout including the counted-only ones
	f1 := c16AllLines()
	ops := map[string]bool{}
	for _, l := range f1 {
		if l.B != "" {
			ops[l.B] = true
		} else {
			ops[codec.Names[l.I.Op]] = true
		}
	}
	c.Vacuity("single-lines-cover-12-opcodes-and-4-batch-keywords", len(ops) == 16)
	c.Note("F1_single_lines", fmt.Sprint(len(f1)))
	for _, l := range f1 {
		if !c.Mine() {
			continue
		}
		all("F1-single", []c16Line{l})
		probes("F1-single", []c16Line{l})
		if c.TimeUp() {
			return
		}
	}

	// F6: 255-byte (encodable) and 256-byte (not encodable) symbols in every string position
	for _, n := range []int{255, 256} {
		long := strings.Repeat("s", n)
		var ls []c16Line
		for _, op := range []uint16{codec.RELOAD, codec.MAP, codec.MOVE} {
			ls = append(ls, c16Ord(codec.Ins{Op: op, Sym: long}))
		}
		ls = append(ls, c16Ord(codec.Ins{Op: codec.LOAD, Sym: long, N: 1}), c16Ord(codec.Ins{Op: codec.CATCH, Sym: long, N: 8, Mode: true}))
		for _, op := range []uint16{codec.INCMP, codec.MOUT, codec.MNEXT, codec.MPREV} {
			ls = append(ls, c16Ord(codec.Ins{Op: op, Sym: long, Sel: "1"}), c16Ord(codec.Ins{Op: op, Sym: "foo", Sel: long}))
		}
		ls = append(ls, c16Batch("DOWN", long, "1", "bb"), c16Batch("DOWN", "foo", long, "bb"), c16Batch("DOWN", "foo", "1", long), c16Batch("UP", "", long, "bb"), c16Batch("NEXT", "", "1", long))
		for _, l := range ls {
			if !c.Mine() {
				continue
			}
			all("F6-long-symbol", []c16Line{l})
			all("F6-long-symbol", []c16Line{c16Ord(codec.Ins{Op: codec.HALT}), l, c16Ord(codec.Ins{Op: codec.MSINK})})
		}
	}

	// F2: all programs of 2..maxLen lines over the pool
	pool := c16Pool()
	maxLen := 3
	if c.Thorough() {
		maxLen = 4
	}
	c.Note("F2_pool_lines", fmt.Sprint(len(pool)))
	c.Note("F2_max_program_lines", fmt.Sprint(maxLen))
	for i := range pool {
		for j := range pool {
			if !c.Mine() {
				continue
			}
			two := []c16Line{pool[i], pool[j]}
			all("F2-programs", two)
			probes("F2-programs", two)
			for k := range pool {
				three := []c16Line{pool[i], pool[j], pool[k]}
				all("F2-programs", three)
				if maxLen >= 4 {
					for l := range pool {
						all("F2-programs", []c16Line{pool[i], pool[j], pool[k], pool[l]})
					}
				}
			}
			if c.TimeUp() {
				return
			}
		}
	}

	// F3: all sequences (order matters, repetition allowed) of 1..maxB batch lines after 0..1 ordinary lines
	bp := c16BatchPool()
	maxB := 3
	if c.Thorough() {
		maxB = 4
	}
	c.Note("F3_batch_pool_lines", fmt.Sprint(len(bp)))
	c.Note("F3_max_batch_lines", fmt.Sprint(maxB))
	prefixes := [][]c16Line{nil, {pool[1]}, {pool[2]}, {pool[12]}, {pool[17]}, {pool[22]}, {pool[24]}, {pool[33]}}
	var seqs func(cur []c16Line, family string, depth int)
	seqs = func(cur []c16Line, family string, depth int) {
		all(family, cur)
		if depth == 0 {
			return
		}
		for _, b := range bp {
			seqs(append(cur[:len(cur):len(cur)], b), family, depth-1)
		}
	}
	for _, pre := range prefixes {
		for _, b1 := range bp {
			for k2, b2 := range bp {
				if !c.Mine() {
					continue
				}
				base := append(append([]c16Line{}, pre...), b1)
				if k2 == 0 { // the 1-line group once per (prefix, first line)
					all("F3-batch", base)
					probes("F3-batch", base)
				}
				seqs(append(base, b2), "F3-batch", maxB-2)
				if c.TimeUp() {
					return
				}
			}
		}
	}

	// F4: [pre] G1 sep [G2] [post]: batch groups that are followed by ordinary lines, and two groups in one source
	cb := c16CleanBatch()
	var groups [][]c16Line
	for _, a := range cb {
		groups = append(groups, []c16Line{a})
		for _, b := range cb {
			groups = append(groups, []c16Line{a, b})
		}
	}
	seps := []c16Line{pool[0], pool[2], pool[6], pool[12], pool[24]} // HALT, MAP foo, MOVE foo, LOAD foo 0, INCMP foo 1
	c.Note("F4_groups", fmt.Sprint(len(groups)))
	for _, g1 := range groups {
		for _, sep := range seps {
			if !c.Mine() {
				continue
			}
			for _, pre := range [][]c16Line{nil, {pool[1]}} {
				for _, post := range [][]c16Line{nil, {pool[7]}} {
					head := append(append(append([]c16Line{}, pre...), g1...), sep)
					all("F4-batch-then-ordinary", append(head[:len(head):len(head)], post...))
					for _, g2 := range groups {
						src := append(append(head[:len(head):len(head)], g2...), post...)
						all("F4-two-groups", src)
					}
				}
			}
			if c.TimeUp() {
				return
			}
		}
	}
	// three groups: the third expansion must contain only the third group's lines
	for _, a := range cb {
		for _, b := range cb {
			if !c.Mine() {
				continue
			}
			for _, d := range cb {
				all("F4-three-groups", []c16Line{a, pool[2], b, pool[0], d})
			}
		}
	}

	// F7: the command line assembler dev/asm (built from the same tree), without and with the flag-name
	// preprocessor (-f), on sources free of the selector forms already known to be altered by asm.Parse
	canonical := func(l c16Line) bool {
		if l.I.Sel == "" { // no selector argument
			return true
		}
		cl := c16SelClass(l.I.Sel)
		return cl == "num" || cl == "alpha" || cl == "wild"
	}
	var clean, cleanB []c16Line
	for _, l := range pool {
		if canonical(l) {
			clean = append(clean, l)
		}
	}
	for _, l := range bp {
		if canonical(l) {
			cleanB = append(cleanB, l)
		}
	}
	type cliCase struct {
		lines  []c16Line
		routes []string
	}
	var cases []cliCase
	both := []string{"cli", "cli-pp"}
	for i, l := range clean {
		cases = append(cases, cliCase{[]c16Line{l}, both})
		cases = append(cases, cliCase{[]c16Line{l, clean[(i*7+3)%len(clean)], clean[(i*11+5)%len(clean)]}, both})
	}
	for i, b1 := range cleanB {
		cases = append(cases, cliCase{[]c16Line{b1}, both})
		for _, b2 := range cleanB {
			cases = append(cases, cliCase{[]c16Line{clean[i%len(clean)], b1, b2}, both})
		}
	}
	for _, name := range []string{"sig_a", "sig_b", "big"} {
		for _, m := range []bool{false, true} {
			cr := c16Line{I: codec.Ins{Op: codec.CROAK, N: c16FlagValues[name], Mode: m}, Flag: name}
			cases = append(cases, cliCase{[]c16Line{cr}, []string{"cli-pp"}})
			for _, node := range []string{"foo", "_", "a_1"} {
				ca := c16Line{I: codec.Ins{Op: codec.CATCH, Sym: node, N: c16FlagValues[name], Mode: m}, Flag: name}
				cases = append(cases, cliCase{[]c16Line{ca}, []string{"cli-pp"}})
				cases = append(cases, cliCase{[]c16Line{pool[12], ca, cr, cleanB[0]}, []string{"cli-pp"}})
			}
		}
	}
	c.Note("F7_cli_sources", fmt.Sprint(len(cases)))
	for _, cs := range cases {
		if !c.Mine() {
			continue
		}
		if bin, why := c16BuildCLI(); bin == "" {
			c.Count("cli_sources_skipped", 1)
			c.Note("F7_cli_skipped", why)
			continue
		}
		for _, route = range cs.routes {
			for _, lay := range []string{"plain", "comment", "crlf"} {
				one("F7-"+route, cs.lines, lay)
			}
		}
		route = ""
		if c.TimeUp() {
			return
		}
	}
}
