package checks

import (
	"encoding/json"
	"fmt"

	"git.defalsify.org/vise.git/engine"
	"git.defalsify.org/vise.git/resource"

	"verif/app"
	"verif/codec"
	"verif/mc"
	"verif/ref"
)

// C20 — session end restarts cleanly; termination stays blocked.

func init() {
	register(&mc.Check{
		ID:    "C20",
		Level: "model_checking",
		Rule: "applications with an end node at depth 0,1,2 of each kind (graceful with/without an own last value - also under an output size the final output does not fit -, abnormal before and after input handling and through a wildcard match, forced by an external TERMINATE request, CROAK) x client flag set earlier or not, x ALL input histories of length n over {1,0,junk} - long enough to pass the end and continue at least three requests beyond it - in persisted operation on the memory and filesystem backends (and long-lived up to the end); " +
			"reference VM in lockstep: ending request delivers the final output and reports stop, afterwards no symbol in any cache scope and client flags kept, the next request re-enters the entry node and re-runs its LOADs; after abnormal/forced end every later request reports stop with empty output, zero instructions (hook count), no external call and unchanged stored position/flags; states = distinct (app, position, flags, cache) after each request; non-trivial = histories that continue past an end",
		Assumptions: []string{"the page printed by the request that terminates abnormally is not constrained", "final output is accepted as page+last value (what the code does) or page alone (the documentation's 'instead')", "the first function of the WithFirst variant answers with empty content and no flags"},
		Run:         c20Run,
		Replay:      c20Replay,
		MinItems:    100,
	})
}

type c20Spec struct {
	Depth int    `json:"end_depth"`
	Kind  string `json:"kind"` // G0 G1 A0 A1 F0 K0
	Flag  bool   `json:"client_flag_set_earlier"`
}

type c20Witness struct {
	Spec   c20Spec  `json:"spec"`
	Opts   lsOpts   `json:"opts"`
	Inputs []string `json:"inputs"`
}

func counterFunc(prefix string) app.Func {
	return func(e *app.Env, sym string, in []byte, l string) (resource.Result, error) {
		k := e.Counts[sym]
		if k > 3 {
			k = 3 // saturating, so that applications with counters have finite state graphs
		}
		return resource.Result{Content: fmt.Sprintf("%s%d", prefix, k)}, nil
	}
}

func c20App(sp c20Spec) *app.App {
	a := app.New("ends")
	a.FlagCount = 3
	end := map[string][]codec.Ins{
		"G0": {{Op: codec.MOUT, Sym: "x", Sel: "1"}, {Op: codec.HALT}},
		"G1": {{Op: codec.LOAD, Sym: "gv", N: 0}, {Op: codec.HALT}},
		// G2: a silent leaf - empty template, no menu, and (see below) no loaded value: the final output is empty
		"G2": {{Op: codec.HALT}},
		"A0": {{Op: codec.MOUT, Sym: "x", Sel: "1"}},
		"A1": {{Op: codec.HALT}, {Op: codec.INCMP, Sym: "zz", Sel: "1"}, {Op: codec.INCMP, Sym: "_", Sel: "0"}},
		// A2: the dead end is reached through the wildcard (e.g. after a free-text input node)
		"A2": {{Op: codec.HALT}, {Op: codec.INCMP, Sym: "_", Sel: "0"}, {Op: codec.INCMP, Sym: "zz", Sel: "*"}},
		"F0": {{Op: codec.LOAD, Sym: "term", N: 0}, {Op: codec.MOUT, Sym: "x", Sel: "1"}, {Op: codec.HALT}, {Op: codec.INCMP, Sym: "_", Sel: "0"}},
		// F1: the function that sets TERMINATE answers with more than the declared size: the request fails, the block stands
		"F1": {{Op: codec.LOAD, Sym: "term2", N: 1}, {Op: codec.MOUT, Sym: "x", Sel: "1"}, {Op: codec.HALT}, {Op: codec.INCMP, Sym: "_", Sel: "0"}},
		// F2: "reset all my flags, then set those that apply" (examples/preprocessor): TERMINATE is named in both lists and is set
		"F2": {{Op: codec.LOAD, Sym: "term3", N: 0}, {Op: codec.MOUT, Sym: "x", Sel: "1"}, {Op: codec.HALT}, {Op: codec.INCMP, Sym: "_", Sel: "0"}},
		"K0": {{Op: codec.LOAD, Sym: "sf8", N: 0}, {Op: codec.CROAK, N: 8, Mode: true}, {Op: codec.HALT}, {Op: codec.INCMP, Sym: "_", Sel: "0"}},
	}[sp.Kind]
	names := []string{"root", "m1", "m2"}
	for d := 0; d <= sp.Depth; d++ {
		var code []codec.Ins
		if d == 0 && sp.Kind == "G2" {
			if sp.Flag {
				code = append(code, codec.Ins{Op: codec.LOAD, Sym: "sf9", N: 0})
			}
		} else if d == 0 {
			code = append(code, codec.Ins{Op: codec.LOAD, Sym: "rv", N: 4}, codec.Ins{Op: codec.MAP, Sym: "rv"})
			if sp.Flag {
				code = append(code, codec.Ins{Op: codec.LOAD, Sym: "sf9", N: 0})
			}
		}
		tpl := names[d]
		if d == 0 && sp.Kind != "G2" {
			tpl = "root {{.rv}}"
		}
		if d == sp.Depth && sp.Kind == "G2" {
			tpl = ""
		}
		if d == sp.Depth {
			code = append(code, end...)
		} else {
			code = append(code, codec.Ins{Op: codec.MOUT, Sym: "go", Sel: "1"}, codec.Ins{Op: codec.HALT}, codec.Ins{Op: codec.INCMP, Sym: names[d+1], Sel: "1"})
			if d > 0 {
				code = append(code, codec.Ins{Op: codec.INCMP, Sym: "_", Sel: "0"})
			}
		}
		a.Node(names[d], tpl, code...)
	}
	a.Node("zz", "zz", codec.Ins{Op: codec.MOUT, Sym: "y", Sel: "2"})
	a.Node("_catch", "catch", codec.Ins{Op: codec.HALT}, codec.Ins{Op: codec.INCMP, Sym: "_", Sel: "*"})
	a.Func("rv", counterFunc("r")).Func("gv", counterFunc("goodbye-all-")) // 13 bytes: with OutputSize 14 every page fits, page + last value does not
	a.Func("sf9", func(e *app.Env, sym string, in []byte, l string) (resource.Result, error) {
		return resource.Result{Content: "", FlagSet: []uint32{9}}, nil
	})
	a.Func("sf8", func(e *app.Env, sym string, in []byte, l string) (resource.Result, error) {
		return resource.Result{Content: "", FlagSet: []uint32{8}}, nil
	})
	a.Func("term", func(e *app.Env, sym string, in []byte, l string) (resource.Result, error) {
		return resource.Result{Content: "t", FlagSet: []uint32{6}}, nil
	})
	a.Func("term3", func(e *app.Env, sym string, in []byte, l string) (resource.Result, error) {
		return resource.Result{Content: "t", FlagSet: []uint32{6}, FlagReset: []uint32{6, 9}}, nil
	})
	a.Func("term2", func(e *app.Env, sym string, in []byte, l string) (resource.Result, error) {
		return resource.Result{Content: "tt", FlagSet: []uint32{6}}, nil
	})
	a.WithInputs("1", "0", "zz")
	return a
}

func c20Replay(w json.RawMessage) (string, string) {
	var wit c20Witness
	if err := json.Unmarshal(w, &wit); err != nil {
		return "bad-witness", err.Error()
	}
	s, m, _ := lockstep(c20App(wit.Spec), wit.Opts, wit.Inputs, nil)
	return s, m
}

func c20Run(c *mc.Ctx) {
	n := 6
	if c.Thorough() {
		n = 8
	}
	c.Note("history_length", fmt.Sprint(n))
	// the last two: tight output sizes - 9: most pages do not fit; 14: every page fits but page + last value does not
	backends := []lsOpts{{Mode: "persisted", Backend: "mem"}, {Mode: "persisted", Backend: "fs"}, {Mode: "long-lived"}, {Mode: "persisted", Backend: "mem", Cfg: engine.Config{OutputSize: 9}}, {Mode: "persisted", Backend: "mem", Cfg: engine.Config{OutputSize: 14}}}
	for name := range extraBackends {
		backends = append(backends, lsOpts{Mode: "persisted", Backend: name})
	}
	// engine.Config.ResetOnEmptyInput: the empty input restarts the session wherever it stands - also when
	// it is blocked by TERMINATE (the engine's own reset clears the block); histories one shorter
	backends = append(backends, lsOpts{Mode: "persisted", Backend: "mem", Cfg: engine.Config{ResetOnEmptyInput: true}})
	// every output size around the final outputs (page + last value is 8..20 bytes in this family): the
	// boundary "fits exactly"; histories two shorter
	for sz := uint32(7); sz <= 22; sz++ {
		if sz != 9 && sz != 14 {
			backends = append(backends, lsOpts{Mode: "persisted", Backend: "mem", Cfg: engine.Config{OutputSize: sz}})
		}
	}
	// an engine with a first function (engine.WithFirst) that does nothing: ends and blocks are the same
	backends = append(backends, lsOpts{Mode: "persisted", Backend: "mem", First: true})
	for depth := 0; depth <= 2; depth++ {
		for _, kind := range []string{"G0", "G1", "G2", "A0", "A1", "A2", "F0", "F1", "F2", "K0"} {
			for _, fl := range []bool{false, true} {
				sp := c20Spec{depth, kind, fl}
				a := c20App(sp)
				for _, o := range backends {
					inputs, n := a.Inputs, n
					if o.Cfg.ResetOnEmptyInput {
						inputs, n = append(append([]string{}, inputs...), ""), n-1
					}
					if o.Cfg.OutputSize > 0 && o.Cfg.OutputSize != 9 && o.Cfg.OutputSize != 14 {
						n -= 2
					}
					for _, first := range inputs {
						if !c.Mine() {
							continue
						}
						o := o
						histories(inputs, n-1, func(h []string) {
							h = append([]string{"", first}, h...)
							pastEnd := false
							ended := false
							sig, msg, reqs := lockstep(a, o, h, func(k int, rv *ref.VM, got app.Resp, want ref.Resp) {
								c.Distinct("states", fmt.Sprint(sp), rv.Nav.Path(), rv.UserFlags(), rv.CacheKey(), fmt.Sprint(rv.Flags[6]))
								if ended {
									pastEnd = true
								}
								if want.Ends != "" || want.Blocked {
									ended = true
								}
							})
							c.Count("evaluations", 1)
							c.Count("transitions", int64(reqs))
							if pastEnd {
								c.Distinct("nontrivial", fmt.Sprint(sp), o.Mode, o.Backend, fmt.Sprint(h))
								c.Count("histories_continuing_past_an_end", 1)
							}
							if sig != "" {
								c.Fail(sig, msg, c20Witness{Spec: sp, Opts: o, Inputs: h})
							}
						})
						if c.TimeUp() {
							return
						}
					}
				}
				if depth == 1 && fl {
					c.Sample(map[string]any{"app": a.Describe(), "kind": kind, "histories": fmt.Sprintf("all of length %d over %v", n+1, a.Inputs)})
				}
			}
		}
	}
}
