package checks

import (
	"fmt"
	"path/filepath"
	"sort"
	"strings"

	"git.defalsify.org/vise.git/engine"
	"git.defalsify.org/vise.git/resource"

	"verif/app"
	"verif/asmread"
	"verif/codec"
)

// corpusApp is one application of the shared corpus (C07, C08).
type corpusApp struct {
	Name   string
	Build  func() *app.App
	Cfgs   []engine.Config // configuration variants (OutputSize / CacheSize)
	Inputs []string        // selector alphabet (junk is added by the checks)
}

func isRelative(t string) bool {
	switch t {
	case "_", "^", ".", "<", ">":
		return true
	}
	return false
}

// wellFormed is the static well-formedness checker of the C08 statement: every move target exists,
// a catch node is defined, no node moves to itself, every cycle of moves passes a HALT.
func wellFormed(a *app.App) (bool, string) {
	if _, ok := a.Nodes["_catch"]; !ok {
		return false, "no catch node"
	}
	if _, ok := a.Nodes[a.Root]; !ok {
		return false, "no entry node"
	}
	parents := map[string]map[string]bool{}
	for n, nd := range a.Nodes {
		for _, i := range nd.Code {
			switch i.Op {
			case codec.MOVE, codec.INCMP, codec.CATCH:
				if isRelative(i.Sym) {
					continue
				}
				if _, ok := a.Nodes[i.Sym]; !ok {
					return false, fmt.Sprintf("%s: move target %s does not exist", n, i.Sym)
				}
				if i.Sym == n {
					return false, fmt.Sprintf("%s moves to itself", n)
				}
				if parents[i.Sym] == nil {
					parents[i.Sym] = map[string]bool{}
				}
				parents[i.Sym][n] = true
			case codec.LOAD, codec.RELOAD:
				_, st := a.Static[i.Sym]
				if _, ok := a.Funcs[i.Sym]; !ok && !st {
					return false, fmt.Sprintf("%s: no external function %s", n, i.Sym)
				}
			}
			if (i.Op == codec.CATCH || i.Op == codec.CROAK) && i.N >= 8+a.FlagCount {
				return false, fmt.Sprintf("%s: flag %d out of range", n, i.N)
			}
		}
	}
	// pre-HALT transfer graph
	edges := map[string][]string{}
	for n, nd := range a.Nodes {
		for _, i := range nd.Code {
			if i.Op == codec.HALT {
				break
			}
			if i.Op != codec.MOVE && i.Op != codec.CATCH {
				continue
			}
			switch i.Sym {
			case ".":
				return false, fmt.Sprintf("%s repeats itself before any HALT", n)
			case "_", "^":
				for p := range parents[n] {
					edges[n] = append(edges[n], p)
				}
				if i.Sym == "^" {
					edges[n] = append(edges[n], a.Root)
				}
			case "<", ">":
			default:
				edges[n] = append(edges[n], i.Sym)
			}
		}
	}
	color := map[string]int{}
	var cyc string
	var dfs func(n string) bool
	dfs = func(n string) bool {
		color[n] = 1
		for _, m := range edges[n] {
			if color[m] == 1 {
				cyc = n + " -> " + m
				return true
			}
			if color[m] == 0 && dfs(m) {
				return true
			}
		}
		color[n] = 2
		return false
	}
	names := a.NodeNames()
	for _, n := range names {
		if color[n] == 0 && dfs(n) {
			return false, "cycle of moves without HALT: " + cyc
		}
	}
	return true, ""
}

func selectorsOf(a *app.App) []string {
	seen := map[string]bool{}
	for _, nd := range a.Nodes {
		for _, i := range nd.Code {
			switch i.Op {
			case codec.INCMP, codec.MOUT, codec.MNEXT, codec.MPREV:
				if i.Sel != "*" {
					seen[i.Sel] = true
				}
			}
		}
	}
	var l []string
	for s := range seen {
		l = append(l, s)
	}
	sort.Strings(l)
	return l
}

// exampleStub is the environment stub behind every external symbol of a repository example: its
// answer is a function of (symbol, declared size, current input, call count) only, i.e. determined by
// the client's inputs.
func exampleStub(size uint32, flags uint32) app.Func {
	return func(e *app.Env, sym string, in []byte, l string) (resource.Result, error) {
		var r resource.Result
		switch {
		case size == 0:
			r.Content = "first row\nsecond row\n\nfourth"
		default:
			k := e.Counts[sym]
			if k > 3 {
				k = 3
			}
			c := fmt.Sprintf("%s%d", sym, k)
			if len(in) > 0 {
				c = string(in) + c
			}
			if len(c) > int(size) {
				c = c[:size]
			}
			r.Content = c
		}
		if flags > 0 {
			if string(in) == "1" {
				r.FlagSet = []uint32{8}
			} else if string(in) == "0" {
				r.FlagReset = []uint32{8}
			}
		}
		return r, nil
	}
}

func exampleApp(ex *asmread.Example) *app.App {
	a := app.New("example-" + ex.Name)
	maxFlag := uint32(8)
	for n, code := range ex.Code {
		tpl := ex.Tpl[n]
		// templates of the examples only use {{.sym}} placeholders; keep them as they are
		a.Node(n, tpl, code...)
		for _, i := range code {
			if (i.Op == codec.CATCH || i.Op == codec.CROAK) && i.N > maxFlag {
				maxFlag = i.N
			}
		}
	}
	a.FlagCount = maxFlag - 7
	for _, code := range ex.Code {
		for _, i := range code {
			if i.Op == codec.LOAD {
				if _, ok := a.Funcs[i.Sym]; !ok {
					a.Func(i.Sym, exampleStub(i.N, a.FlagCount))
				}
			}
		}
	}
	for _, code := range ex.Code {
		for _, i := range code {
			if i.Op == codec.RELOAD {
				if _, ok := a.Funcs[i.Sym]; !ok {
					a.Func(i.Sym, exampleStub(8, a.FlagCount))
				}
			}
		}
	}
	if _, ok := a.Nodes["_catch"]; !ok {
		a.Node("_catch", "catch", codec.Ins{Op: codec.MOUT, Sym: "back", Sel: "0"}, codec.Ins{Op: codec.HALT}, codec.Ins{Op: codec.INCMP, Sym: "_", Sel: "*"})
	}
	a.Inputs = selectorsOf(a)
	return a
}

var corpusCache []corpusApp
var corpusSkipped []string

// corpus returns the shared application corpus: collision apps of the other checks, the repository's
// examples (read from the current tree) and a generated family, all passing wellFormed.
func corpus() []corpusApp {
	if corpusCache != nil {
		return corpusCache
	}
	var out []corpusApp
	std := []engine.Config{{}, {OutputSize: 160}}
	add := func(name string, build func() *app.App, cfgs []engine.Config) {
		a := build()
		if ok, why := wellFormed(a); !ok {
			corpusSkipped = append(corpusSkipped, name+": "+why)
			return
		}
		in := a.Inputs
		if len(in) == 0 {
			in = selectorsOf(a)
		}
		out = append(out, corpusApp{Name: name, Build: build, Cfgs: cfgs, Inputs: in})
	}
	add("navigator", navigatorApp, append(append([]engine.Config{}, std...), engine.Config{ResetOnEmptyInput: true}))
	for ti, t := range [][]c03Line{{{"aa", "1"}, {"bb", "1"}, {"_", "2"}}, {{"<", "1"}, {"aa", "*"}}, {{".", "1"}, {"_", "*"}}, {{"aa", "*"}, {"bb", "2"}}} {
		t := t
		for d := 0; d < 2; d++ {
			d := d
			add(fmt.Sprintf("route-%d-d%d", ti, d), func() *app.App { a, _ := c03App(t, d); a.Inputs = []string{"1", "2", "3"}; return a }, std)
		}
	}
	add("paged", func() *app.App {
		return c02App(c02Cfg{Rows: []string{"aaa", "", "ccc", "dd", "eeee", ""}, Tpl: 1, Menu: 1, Next: true, Prev: true})
	}, []engine.Config{{OutputSize: 34}, {OutputSize: 30}, {OutputSize: 60}, {}})
	add("msink", func() *app.App {
		return c02App(c02Cfg{Rows: []string{"1:aaaa", "2:b", "3:cccc", "4:dd"}, MSink: true, Next: true, Prev: true})
	}, []engine.Config{{OutputSize: 24}, {OutputSize: 40}, {}})
	for _, d := range c01Apps {
		d := d
		for v := 0; v < d.variants; v += 2 {
			v := v
			add(fmt.Sprintf("c01-%s-%d", d.name, v), func() *app.App { a := d.build(v); a.Inputs = d.inputs; return a }, []engine.Config{{}, {OutputSize: 12}, {OutputSize: 40}})
		}
	}
	for si, sp := range []c05Spec{{RootLoad: 1, AaLoad: 5, BbLoad: 4, CcLoad: 2, Reload: 2}, {RootLoad: 3, AaLoad: 5, BbLoad: 0, Reload: 1}, {RootLoad: 0, AaLoad: 2, BbLoad: 1, CcLoad: 2, Reload: 0}} {
		sp := sp
		add(fmt.Sprintf("loader-%d", si), func() *app.App {
			a, _ := c05App(sp)
			f := counterFunc("v")
			a.Func("ss", f).Func("tt", f)
			return a
		}, []engine.Config{{}, {CacheSize: 5}, {OutputSize: 30, CacheSize: 8}})
	}
	for pi, p := range []c06Prog{{Croak: false, Post: false, K: 9, M: true}, {Croak: true, Post: true, K: 8, M: true}, {Croak: true, Post: false, K: 10, M: false}, {Croak: false, Post: true, K: 8, M: false}} {
		p := p
		for si, sr := range [][2][]uint32{{{9}, {}}, {{8, 6}, {}}, {{8}, {9}}, {{7}, {8}}} {
			sr := sr
			add(fmt.Sprintf("flags-%d-%d", pi, si), func() *app.App { return c06App(p, sr[0], sr[1]) }, []engine.Config{{}})
		}
	}
	for _, sp := range []c18Spec{{false, "", 7}, {true, "nor", 5}} {
		sp := sp
		add(fmt.Sprintf("lang-%v-%s", sp.Early, sp.CfgLang), func() *app.App {
			a := c18App(sp)
			cyc := func(e *app.Env, sym string, in []byte, l string) (resource.Result, error) {
				n := (len(e.Vars["cyc"]) + 1) % len(c18Answers)
				e.Vars["cyc"] = strings.Repeat("x", n)
				an := c18Answers[n]
				r := resource.Result{Content: an.code}
				if an.flag {
					r.FlagSet = []uint32{7}
				}
				return r, nil
			}
			a.Func("sw0", cyc).Func("sw1f", cyc).Func("sw2f", cyc).Func("swf", cyc)
			return a
		}, []engine.Config{{Language: sp.CfgLang}})
	}
	for depth := 0; depth <= 2; depth++ {
		for _, kind := range []string{"G0", "G1", "G2", "A0", "A1", "A2", "F0", "K0"} {
			sp := c20Spec{depth, kind, depth == 1}
			add(fmt.Sprintf("end-%d-%s", depth, kind), func() *app.App { return c20App(sp) }, []engine.Config{{}})
		}
	}
	// engine with a first function: sessions that end (both ways) and are addressed again
	for _, sp := range []c20Spec{{0, "A0", false}, {1, "A0", false}, {1, "G0", false}, {1, "F0", true}} {
		sp := sp
		add(fmt.Sprintf("first-end-%d-%s", sp.Depth, sp.Kind), func() *app.App { a := c20App(sp); a.First = true; return a }, []engine.Config{{}})
	}
	add("first-paged", func() *app.App {
		a := c02App(c02Cfg{Rows: []string{"aaa", "", "ccc", "dd", "eeee", ""}, Tpl: 1, Menu: 1, Next: true, Prev: true})
		a.First = true
		return a
	}, []engine.Config{{OutputSize: 34}})
	// a value loaded below the entry node, the level left again, then the session ends one level up:
	// what is delivered with the final page must not depend on how the engine was kept between requests
	add("lastleft", func() *app.App {
		a := app.New("lastleft")
		a.Node("root", "top", codec.Ins{Op: codec.MOUT, Sym: "in", Sel: "1"}, codec.Ins{Op: codec.MOUT, Sym: "quit", Sel: "2"}, codec.Ins{Op: codec.HALT},
			codec.Ins{Op: codec.INCMP, Sym: "cc", Sel: "1"}, codec.Ins{Op: codec.INCMP, Sym: "fin", Sel: "2"})
		a.Node("cc", "cc {{.cv}}", codec.Ins{Op: codec.LOAD, Sym: "cv", N: 20}, codec.Ins{Op: codec.MAP, Sym: "cv"}, codec.Ins{Op: codec.MOUT, Sym: "back", Sel: "0"}, codec.Ins{Op: codec.HALT},
			codec.Ins{Op: codec.INCMP, Sym: "_", Sel: "0"})
		a.Node("fin", "bye", codec.Ins{Op: codec.HALT})
		a.Node("_catch", "catch", codec.Ins{Op: codec.HALT}, codec.Ins{Op: codec.INCMP, Sym: "_", Sel: "*"})
		a.Func("cv", constFunc("good day"))
		a.WithInputs("1", "0", "2")
		return a
	}, []engine.Config{{}})
	// two paginated nodes whose browse entries differ in length, the one with the shorter labels first
	add("twolists", func() *app.App {
		a := app.New("twolists")
		a.Node("root", "lists", codec.Ins{Op: codec.MOUT, Sym: "a", Sel: "1"}, codec.Ins{Op: codec.MOUT, Sym: "b", Sel: "2"}, codec.Ins{Op: codec.HALT},
			codec.Ins{Op: codec.INCMP, Sym: "la", Sel: "1"}, codec.Ins{Op: codec.INCMP, Sym: "lb", Sel: "2"})
		list := func(name, nx, pv string) {
			a.Node(name, name+"\n{{.rows}}", codec.Ins{Op: codec.LOAD, Sym: "rows", N: 0}, codec.Ins{Op: codec.MAP, Sym: "rows"}, codec.Ins{Op: codec.MOUT, Sym: "back", Sel: "0"},
				codec.Ins{Op: codec.MNEXT, Sym: nx, Sel: "11"}, codec.Ins{Op: codec.MPREV, Sym: pv, Sel: "22"}, codec.Ins{Op: codec.HALT},
				codec.Ins{Op: codec.INCMP, Sym: "_", Sel: "0"}, codec.Ins{Op: codec.INCMP, Sym: ">", Sel: "11"}, codec.Ins{Op: codec.INCMP, Sym: "<", Sel: "22"})
		}
		list("la", "nx", "pv")
		list("lb", "next page", "previous page")
		a.Node("_catch", "catch", codec.Ins{Op: codec.HALT}, codec.Ins{Op: codec.INCMP, Sym: "_", Sel: "*"})
		var rows []string
		for i := 0; i < 12; i++ {
			rows = append(rows, fmt.Sprintf("row%02d...", i))
		}
		a.Func("rows", constFunc(strings.Join(rows, "\n")))
		a.WithInputs("1", "2", "0", "11", "22")
		return a
	}, []engine.Config{{OutputSize: 60}, {OutputSize: 70}})
	// an external function that fails once (the catch page is shown), and later an instruction that is not a
	// load fails: where that second failure goes must not depend on how the engine is kept
	add("loadfail-then-error", func() *app.App {
		a := app.New("loadfail")
		a.Node("root", "top", codec.Ins{Op: codec.MOUT, Sym: "a", Sel: "1"}, codec.Ins{Op: codec.MOUT, Sym: "b", Sel: "2"}, codec.Ins{Op: codec.HALT},
			codec.Ins{Op: codec.INCMP, Sym: "bad", Sel: "1"}, codec.Ins{Op: codec.INCMP, Sym: "errn", Sel: "2"})
		a.Node("bad", "bad {{.bv}}", codec.Ins{Op: codec.LOAD, Sym: "bv", N: 8}, codec.Ins{Op: codec.MAP, Sym: "bv"}, codec.Ins{Op: codec.HALT}, codec.Ins{Op: codec.INCMP, Sym: "_", Sel: "0"})
		a.Node("errn", "errn", codec.Ins{Op: codec.MAP, Sym: "nosuch"}, codec.Ins{Op: codec.HALT}, codec.Ins{Op: codec.INCMP, Sym: "_", Sel: "0"})
		a.Node("_catch", "catch", codec.Ins{Op: codec.HALT}, codec.Ins{Op: codec.MOVE, Sym: "^"})
		a.Func("bv", func(e *app.Env, sym string, in []byte, l string) (resource.Result, error) {
			if e.Counts[sym] <= 1 {
				return resource.Result{}, fmt.Errorf("backend hiccup")
			}
			return resource.Result{Content: "fine"}, nil
		})
		a.WithInputs("1", "2", "0")
		return a
	}, []engine.Config{{}})
	add("echo", echoApp, []engine.Config{{}, {OutputSize: 20}, {CacheSize: 14}, {ResetOnEmptyInput: true}})
	add("trailnl", func() *app.App {
		// values that end in a newline: the last loaded value is the last thing in the stored record
		a := app.New("trailnl")
		a.Node("root", "note: {{.note}}", codec.Ins{Op: codec.LOAD, Sym: "note", N: 40}, codec.Ins{Op: codec.MAP, Sym: "note"}, codec.Ins{Op: codec.MOUT, Sym: "go", Sel: "1"}, codec.Ins{Op: codec.HALT},
			codec.Ins{Op: codec.INCMP, Sym: "nn", Sel: "1"}, codec.Ins{Op: codec.INCMP, Sym: ".", Sel: "5"})
		a.Node("nn", "nn {{.tail}}", codec.Ins{Op: codec.LOAD, Sym: "tail", N: 0}, codec.Ins{Op: codec.MAP, Sym: "tail"}, codec.Ins{Op: codec.MOUT, Sym: "back", Sel: "0"}, codec.Ins{Op: codec.HALT},
			codec.Ins{Op: codec.INCMP, Sym: "_", Sel: "0"})
		a.Node("_catch", "catch", codec.Ins{Op: codec.HALT}, codec.Ins{Op: codec.INCMP, Sym: "_", Sel: "*"})
		a.Func("note", constFunc("saved\n")).Func("tail", constFunc("first\nsecond\n\n"))
		a.WithInputs("1", "0", "5")
		return a
	}, []engine.Config{{}, {OutputSize: 60}})
	add("form", formApp, []engine.Config{{}, {CacheSize: 10}, {CacheSize: 40, OutputSize: 60}})
	// repository examples, read from the tree this binary is linked against
	if dir := c16RepoDir(); dir != "" {
		ds, _ := filepath.Glob(filepath.Join(dir, "examples", "*"))
		sort.Strings(ds)
		for _, d := range ds {
			ex, err := asmread.LoadDir(d)
			if err != nil {
				continue
			}
			if len(ex.Skips) > 0 {
				corpusSkipped = append(corpusSkipped, "example-"+ex.Name+": "+strings.Join(ex.Skips, "; "))
				continue
			}
			add("example-"+ex.Name, func() *app.App { return exampleApp(ex) }, []engine.Config{{}, {OutputSize: 160}, {OutputSize: 48}})
		}
	}
	corpusCache = out
	return out
}

func corpusByName(n string) (corpusApp, bool) {
	for _, c := range corpus() {
		if c.Name == n {
			return c, true
		}
	}
	return corpusApp{}, false
}

// formApp: a field that is RELOADed with an echo of whatever the client types (any length up to the
// input limit), so that with a small cache capacity the update is refused for capacity.
func formApp() *app.App {
	a := app.New("form")
	a.Node("root", "field: {{.fld}}", codec.Ins{Op: codec.LOAD, Sym: "fld", N: 300}, codec.Ins{Op: codec.MAP, Sym: "fld"}, codec.Ins{Op: codec.MOUT, Sym: "edit", Sel: "1"}, codec.Ins{Op: codec.HALT},
		codec.Ins{Op: codec.INCMP, Sym: "ed", Sel: "*"})
	a.Node("ed", "ed", codec.Ins{Op: codec.RELOAD, Sym: "fld"}, codec.Ins{Op: codec.MOVE, Sym: "_"})
	a.Node("_catch", "catch", codec.Ins{Op: codec.HALT}, codec.Ins{Op: codec.INCMP, Sym: "_", Sel: "*"})
	a.Func("fld", func(e *app.Env, sym string, in []byte, l string) (resource.Result, error) {
		return resource.Result{Content: "<" + string(in) + ">"}, nil
	})
	a.WithInputs("1", "ab", "abcdefgh")
	return a
}

func ProbeApp() *app.App { return c20App(c20Spec{0, "A0", false}) }
