package checks

import (
	"fmt"
	"os"

	"git.defalsify.org/vise.git/db"

	"verif/mc"
	"verif/ref"
)

// C10 Part B — explicit-state search over reference states with the backend state read back.
//
// Every worker first runs the same breadth-first search over the REFERENCE alone (no implementation
// involved) to depth D-1, which gives each reference state s a canonical shortest operation path p(s).
// The states are the work items. For an owned state s and every letter o of the alphabet the worker
// brings fresh backends into s by executing p(s), applies o with the full Part-A oracle, and reads the
// raw backend state back: the handle's private context (by reflection) and the storage bytes (directory
// listing + file contents, resp. the map). These are compared with H(ctx(s')) and K(content(s')), the
// raw handle context / raw storage reached by the canonical path of the FIRST state in search order with
// the same reference context resp. the same reference content.
//
// Soundness of the pruning. Assume every comparison succeeded. Claim: after any operation sequence w
// with |w| <= D-1... the raw state of each backend equals (H(ctx(s)), K(content(s))) where s is the
// reference state after w. Induction on |w|: for w = w'o, by hypothesis the backend after w' is in the
// same raw state as after p(s'), and since a backend's reaction to an operation is a function of its raw
// state (Assumptions; determinism is also exercised by the double replay of every finding), executing o
// after w' yields the same response and the same raw state as executing o after p(s') — which is exactly
// a transition that was executed, checked against the oracle, and found to end in (H, K) of the successor.
// Hence every response along every sequence of length <= D equals a response that was checked.
// If a comparison FAILS the claim is not available below that transition: nothing is reported, the
// mismatch is counted, and the continuations of p(s)+o are executed statelessly as in Part A (two further
// operations, bounded number per worker; beyond that only counted and Part B claims nothing there).

type c10bState struct {
	parent int32
	op     uint8
	depth  uint8
}

type c10bInst struct {
	st     kvStore
	h      db.Db
	m      *ref.KV
	h0, r0 string // raw state right after the build (last level only)
	have0  bool
}

func c10PartB(c *mc.Ctx, alpha []ref.KVOp, backends []kvBackend, D int, runLeaf func([]ref.KVOp)) {
	// precondition: raw state readable; a backend where it is not is left out of Part B (it stays in Part A)
	var usable []kvBackend
	var left []string
	for _, b := range backends {
		st := b.New()
		h, err := st.open()
		ok := err == nil
		if ok {
			_, ok1 := st.hkey(h)
			_, ok2 := st.raw()
			ok = ok1 && ok2
		}
		st.cleanup()
		if ok {
			usable = append(usable, b)
		} else {
			left = append(left, b.Name)
		}
	}
	backends = usable
	c.Note("partB_backends_left_out", fmt.Sprint(left))
	if len(backends) == 0 {
		return
	}

	// ---- reference-only BFS (identical in every worker)
	type hk [2]uint64
	keyOf := func(m *ref.KV) hk {
		k := m.Key()
		return hk{hash64(k), mc.Hash(k)}
	}
	states := []c10bState{{parent: -1}}
	index := map[hk]int32{keyOf(ref.NewKV()): 0}
	firstCtx := map[string]int32{ref.NewKV().CtxKey(): 0}
	firstContent := map[hk]int32{}
	contentOf := func(m *ref.KV) hk {
		k := m.ContentKey()
		return hk{hash64(k), mc.Hash(k)}
	}
	firstContent[contentOf(ref.NewKV())] = 0
	pathOf := func(i int32) []ref.KVOp {
		var rev []ref.KVOp
		for states[i].parent >= 0 {
			rev = append(rev, alpha[states[i].op])
			i = states[i].parent
		}
		for a, b := 0, len(rev)-1; a < b; a, b = a+1, b-1 {
			rev[a], rev[b] = rev[b], rev[a]
		}
		return rev
	}
	modelOf := func(p []ref.KVOp) *ref.KV {
		m := ref.NewKV()
		for _, o := range p {
			m.Apply(o)
		}
		return m
	}
	for i := 0; i < len(states); i++ {
		if int(states[i].depth) >= D-1 {
			break // BFS order: all later states are at least as deep
		}
		m := modelOf(pathOf(int32(i)))
		for oi, o := range alpha {
			if m.NoEffect(o) {
				continue
			}
			n := m.Clone()
			n.Apply(o)
			k := keyOf(n)
			if _, ok := index[k]; ok {
				continue
			}
			id := int32(len(states))
			index[k] = id
			states = append(states, c10bState{parent: int32(i), op: uint8(oi), depth: states[i].depth + 1})
			if _, ok := firstCtx[n.CtxKey()]; !ok {
				firstCtx[n.CtxKey()] = id
			}
			ck := contentOf(n)
			if _, ok := firstContent[ck]; !ok {
				firstContent[ck] = id
			}
		}
	}
	c.Note("partB_reference_states", fmt.Sprint(len(states)))
	byDepth := make([]int, D)
	for _, s := range states {
		byDepth[s.depth]++
	}
	c.Note("partB_reference_states_by_depth", fmt.Sprint(byDepth))
	if os.Getenv("VERIF_C10_DEBUG") == "bfs" {
		fmt.Fprintln(os.Stderr, "states by depth", byDepth)
		return
	}
	c.Note("partB_reference_contexts", fmt.Sprint(len(firstCtx)))
	c.Note("partB_reference_contents", fmt.Sprint(len(firstContent)))

	// ---- canonical raw states, computed on demand and cached per worker
	build := func(b kvBackend, p []ref.KVOp) (*c10bInst, int) {
		st := b.New()
		h, err := st.open()
		if err != nil {
			st.cleanup()
			return nil, 0
		}
		m := ref.NewKV()
		for _, o := range p {
			if !(o.Op == "dump" && !b.HasDump) {
				kvApply(h, o)
			}
			m.Apply(o)
		}
		return &c10bInst{st: st, h: h, m: m}, len(p)
	}
	H := make([]map[string]string, len(backends))
	K := make([]map[hk]string, len(backends))
	for i := range backends {
		H[i] = map[string]string{}
		K[i] = map[hk]string{}
	}
	canonH := func(bi int, m *ref.KV) string {
		ck := m.CtxKey()
		if v, ok := H[bi][ck]; ok {
			return v
		}
		id, ok := firstCtx[ck]
		v := "?unreached"
		if ok {
			if in, n := build(backends[bi], pathOf(id)); in != nil {
				c.Count("transitions", int64(n))
				v, _ = in.st.hkey(in.h)
				in.st.cleanup()
			}
		}
		H[bi][ck] = v
		return v
	}
	canonK := func(bi int, m *ref.KV) string {
		ck := contentOf(m)
		if v, ok := K[bi][ck]; ok {
			return v
		}
		id, ok := firstContent[ck]
		v := "?unreached"
		if ok {
			if in, n := build(backends[bi], pathOf(id)); in != nil {
				c.Count("transitions", int64(n))
				v, _ = in.st.raw()
				in.st.cleanup()
			}
		}
		K[bi][ck] = v
		return v
	}

	// stateless continuation below a transition whose raw state did not match: at most two further
	// operations and at most fallbackBudget sequences per worker. On a tree where the premise holds
	// (every tree measured so far) this never runs; when the budget is exhausted the evidence says so
	// (counter prune_mismatch_unexplored) and Part B claims nothing below those transitions.
	fallbackBudget := 4000
	var extend func(seq []ref.KVOp, m *ref.KV, limit int)
	extend = func(seq []ref.KVOp, m *ref.KV, limit int) {
		if len(seq) >= limit {
			if fallbackBudget <= 0 {
				c.Count("prune_mismatch_unexplored", 1)
				return
			}
			fallbackBudget--
			runLeaf(seq)
			return
		}
		for _, o := range alpha {
			if m.NoEffect(o) {
				continue
			}
			n := m.Clone()
			n.Apply(o)
			extend(append(append([]ref.KVOp(nil), seq...), o), n, limit)
		}
	}

	// ---- the states are the work items
	for i := range states {
		if !c.Mine() {
			continue
		}
		p := pathOf(int32(i))
		sm := modelOf(p)
		k := sm.Key()
		c.Distinct("states", k)
		if len(sm.Cells) > 0 {
			c.Distinct("nontrivial", k)
		}
		for bi, b := range backends {
			var in *c10bInst
			for _, o := range alpha {
				if sm.NoEffect(o) {
					continue
				}
				if in == nil {
					var n int
					in, n = build(b, p)
					c.Count("transitions", int64(n))
					if in == nil {
						c.Fail("open-fails@"+b.Name, "cannot open backend", c10Witness{Part: "seq", Backend: b.Name, Sig: "open-fails@" + b.Name, Ops: p})
						break
					}
				}
				steps := 0
				full := append(append([]ref.KVOp(nil), p...), o)
				where := fmt.Sprintf("[%s] after %s, op %d", b.Name, ref.OpsString(p), len(p)+1)
				if len(full) >= D && !in.have0 {
					// last level: successors have no canonical representative; an instance is reused only
					// if a read-only operation left the raw state exactly as it was after the build
					in.h0, _ = in.st.hkey(in.h)
					in.r0, _ = in.st.raw()
					in.have0 = true
				}
				viols, div := c10Step(b, in.st, in.h, in.m, o, where, map[ref.Cell]bool{}, &steps, true)
				c.Count("evaluations", 1)
				c.Count("transitions", int64(steps))
				for _, v := range viols {
					c.Fail(v.Sig, v.Msg, c10Witness{Part: "seq", Backend: b.Name, Sig: v.Sig, Ops: full})
				}
				if bi == 0 {
					c.Distinct("states", in.m.Key())
				}
				// raw read-back
				match := !div
				var hkey, rkey string
				if match && len(full) < D {
					hkey, _ = in.st.hkey(in.h)
					rkey, _ = in.st.raw()
					match = hkey == canonH(bi, in.m) && rkey == canonK(bi, in.m)
					c.Count("raw_state_comparisons", 1)
				} else if match && in.m.Key() == k {
					hkey, _ = in.st.hkey(in.h)
					rkey, _ = in.st.raw()
					if hkey != in.h0 || rkey != in.r0 {
						c.Count("last_level_read_changed_raw_state", 1)
						in.st.cleanup()
						in = nil
						continue
					}
				}
				if !match && !div && len(full) < D {
					c.Count("prune_mismatch", 1)
					if os.Getenv("VERIF_C10_DEBUG") != "" && c.DistinctLen("dbg") < 5 {
						c.Distinct("dbg", fmt.Sprint(full))
						fmt.Fprintf(os.Stderr, "MISMATCH %s after %s:\n  h=%q\n  H=%q\n  r=%q\n  K=%q\n", b.Name, ref.OpsString(full), hkey, canonH(bi, in.m), rkey, canonK(bi, in.m))
					}
					lim := len(full) + 2
					if lim > D {
						lim = D
					}
					if fallbackBudget > 0 {
						extend(full, in.m.Clone(), lim)
					} else {
						c.Count("prune_mismatch_unexplored", 1)
					}
				}
				if !match || in.m.Key() != k {
					in.st.cleanup()
					in = nil
				}
			}
			if in != nil {
				in.st.cleanup()
			}
		}
		if i%257 == 0 {
			c.Sample(map[string]any{"part": "B", "state_path": ref.OpsString(p), "reference_state": fmt.Sprintf("pfx=%s session=%q lang=%q lock=%d seal=%v entries=%d", ref.TypName(sm.Pfx), sm.Sess, sm.Lang, sm.Lock, sm.Seal, len(sm.Cells))})
		}
		if c.TimeUp() {
			return
		}
	}
}
