package checks

import (
	"encoding/json"
	"fmt"
	"strings"

	"git.defalsify.org/vise.git/engine"

	"verif/app"
	"verif/codec"
	"verif/mc"
	"verif/ref"
)

// C03 — input is routed by the first matching INCMP, once.

func init() {
	register(&mc.Check{
		ID:    "C03",
		Level: "model_checking",
		Rule: "all route tables of 0..3 INCMP lines over targets {aa,bb,_,<,.,ee (a terminal node without HALT)} x selectors {1,2,*} (6175 tables) placed after the HALT of the entry node and of a depth-1 node, x all input histories up to depth 3 over {1,2,3,''} through engine.DefaultEngine (long-lived; persisted on mem in the thorough tier); " +
			"reference = first-match routing rule + navigation table, compared after every request on position, the sequence of code fetches (exactly one move per request) and the invalid-input page; states = distinct (table, position) pairs; non-trivial = requests where a later line would also have matched",
		Assumptions: []string{"'_' at the entry node is only required to report an error", "unmatched input at the catch node itself is not constrained"},
		Run:         c03Run,
		Replay:      c03Replay,
		MinItems:    3000,
	})
}

type c03Line struct {
	Target string `json:"target"`
	Sel    string `json:"sel"`
}

type c03Witness struct {
	Table  []c03Line `json:"table"`
	Depth  int       `json:"table_at_depth"`
	Mode   string    `json:"mode"`
	Inputs []string  `json:"inputs"`
}

var c03Targets = []string{"aa", "bb", "_", "<", ".", "ee"}
var c03Sels = []string{"1", "2", "*"}
var c03Inputs = []string{"1", "2", "3", ""}

// c03LastInputs: additional inputs tried in the last position of a history only - a selector followed by a
// blank (must not be taken for the selector) and an input with a formatting verb (shown verbatim by the catch page).
var c03LastInputs = []string{"1 ", "5%d", "7{{.x}}"} // the last one: template syntax in the input

func c03Tables() [][]c03Line {
	var kinds []c03Line
	for _, t := range c03Targets {
		for _, s := range c03Sels {
			kinds = append(kinds, c03Line{t, s})
		}
	}
	out := [][]c03Line{{}}
	for _, a := range kinds {
		out = append(out, []c03Line{a})
		for _, b := range kinds {
			out = append(out, []c03Line{a, b})
			for _, c := range kinds {
				out = append(out, []c03Line{a, b, c})
			}
		}
	}
	return out
}

func c03Code(t []c03Line) []codec.Ins {
	code := []codec.Ins{{Op: codec.HALT}}
	for _, l := range t {
		code = append(code, codec.Ins{Op: codec.INCMP, Sym: l.Target, Sel: l.Sel})
	}
	return code
}

// "ee" is a terminal node: its code runs out without a HALT (a farewell page)
var c03Fixed = map[string][]c03Line{
	"aa":     {{"_", "1"}, {"bb", "2"}},
	"bb":     {{"_", "1"}, {"^", "2"}, {"aa", "2"}},
	"_catch": {{"_", "*"}},
}

func c03App(t []c03Line, depth int) (*app.App, map[string][]c03Line) {
	a := app.New("route")
	tables := map[string][]c03Line{}
	for k, v := range c03Fixed {
		tables[k] = v
	}
	if depth == 0 {
		tables["root"] = t
	} else {
		tables["root"] = []c03Line{{"mid", "*"}}
		tables["mid"] = t
	}
	for n, tb := range tables {
		a.Node(n, "at "+n, c03Code(tb)...)
	}
	a.Node("ee", "at ee", codec.Ins{Op: codec.MOUT, Sym: "bye", Sel: "9"})
	return a, tables
}

// c03Route is the reference routing rule. It returns the acceptable outcomes.
type c03Outcome struct {
	nav     *ref.Nav
	catch   bool // went to the catch node with an invalid-input message
	errOnly bool // only an error is required ('_' at the entry node)
}

func c03Route(table []c03Line, nav *ref.Nav, input string) (outs []c03Outcome, laterAlsoMatches bool) {
	matches := func(l c03Line) bool { return l.Sel == input || l.Sel == "*" }
	toCatch := func() c03Outcome {
		n := nav.Clone()
		n.Move("_catch")
		return c03Outcome{nav: n, catch: true}
	}
	for i, l := range table {
		if !matches(l) {
			continue
		}
		for _, l2 := range table[i+1:] {
			if matches(l2) {
				laterAlsoMatches = true
			}
		}
		n := nav.Clone()
		res, _ := n.Move(l.Target)
		switch res {
		case ref.NavFailUndefined:
			return []c03Outcome{{errOnly: true}}, laterAlsoMatches
		case ref.NavFail:
			// the first line whose selector equals the input DECIDES (statement), and what it decides here
			// is a refused 'previous' on the first page, which counts as no match: the catch node. Later
			// lines - a wildcard, the same selector again - are not consulted (instructions.texi: after a
			// match consecutive INCMP are ignored until the next HALT).
			outs = append(outs, toCatch())
			return outs, laterAlsoMatches
		}
		return []c03Outcome{{nav: n}}, laterAlsoMatches
	}
	return []c03Outcome{toCatch()}, false
}

func c03History(t []c03Line, depth int, mode string, inputs []string, c *mc.Ctx) (sig, msg string, steps int) {
	a, tables := c03App(t, depth)
	var s *app.Session
	if mode == "persisted" {
		s = app.NewSession(a, engine.Config{SessionId: "s1"}, app.Persisted)
		s.Open = app.MemStore()
		s.FinishOnError = true
	} else {
		s = app.NewSession(a, engine.Config{}, app.LongLived)
	}
	nav := &ref.Nav{}
	r := s.Request([]byte(""))
	steps++
	if r.Panic != "" || r.ExecErr != "" {
		return "first-request-fails", r.Panic + r.ExecErr, steps
	}
	nav.Move("root")
	if !r.Cont {
		return "", "", steps // the session ended at the first HALT (no code follows it)
	}
	if depth == 1 {
		r = s.Request([]byte("1"))
		steps++
		if r.Panic != "" || r.ExecErr != "" {
			return "descent-fails", r.Panic + r.ExecErr, steps
		}
		nav.Move("mid")
		if !r.Cont {
			return "", "", steps
		}
	}
	for k, in := range inputs {
		table := tables[nav.Top()]
		outs, later := c03Route(table, nav, in)
		// self-move would be an ill-formed application: stop this history
		for _, o := range outs {
			if o.nav != nil && len(o.nav.Stack) >= 2 && o.nav.Stack[len(o.nav.Stack)-1] == o.nav.Stack[len(o.nav.Stack)-2] {
				return "", "", steps
			}
		}
		if nav.Top() == "_catch" && outs[0].catch {
			return "", "", steps
		}
		r := s.Request([]byte(in))
		steps++
		where := fmt.Sprintf("%s request %d input %q at %s@%d with table %v", mode, k, in, nav.Path(), nav.Idx, table)
		if r.Panic != "" {
			return "panic", fmt.Sprintf("%s: panic %s", where, r.Panic), steps
		}
		if outs[0].errOnly && len(outs) == 1 {
			if r.ExecErr == "" {
				return "up-at-entry-no-error", fmt.Sprintf("%s: '_' at the entry node reported no error", where), steps
			}
			return "", "", steps
		}
		if r.ExecErr != "" {
			for _, o := range outs {
				if o.errOnly {
					return "", "", steps
				}
			}
			return "request-fails", fmt.Sprintf("%s: Exec error %s", where, r.ExecErr), steps
		}
		st := s.St
		path := strings.Join(st.ExecPath, "/")
		var fetched []string
		for _, cl := range r.Calls {
			if cl.Kind == "code" {
				fetched = append(fetched, cl.Sym)
			}
		}
		var hit *c03Outcome
		for i := range outs {
			o := &outs[i]
			if o.nav != nil && o.nav.Path() == path && o.nav.Idx == st.SizeIdx {
				hit = o
				break
			}
		}
		if hit == nil {
			want := []string{}
			for _, o := range outs {
				if o.nav != nil {
					want = append(want, fmt.Sprintf("%s@%d", o.nav.Path(), o.nav.Idx))
				}
			}
			sg := "wrong-route"
			if len(fetched) > 1 {
				sg = "second-move"
			}
			return sg, fmt.Sprintf("%s: now at %s@%d after fetching %v; first-match rule gives %v", where, path, st.SizeIdx, fetched, want), steps
		}
		if len(fetched) != 1 || fetched[0] != hit.nav.Top() {
			return "not-exactly-one-move", fmt.Sprintf("%s: code fetched for %v, exactly one move to %s expected", where, fetched, hit.nav.Top()), steps
		}
		if hit.catch && r.FlushErr != "" {
			return "catch-page-fails-to-render", fmt.Sprintf("%s: the catch page cannot be shown: %s", where, r.FlushErr), steps
		}
		if hit.catch && in != "" && !strings.Contains(r.Out, in) && r.FlushErr == "" {
			return "invalid-input-not-shown", fmt.Sprintf("%s: catch page %q does not show the input", where, r.Out), steps
		}
		if hit.catch && !strings.Contains(r.Out, "at _catch") && r.FlushErr == "" {
			return "catch-page-not-rendered", fmt.Sprintf("%s: output %q is not the catch node's page", where, r.Out), steps
		}
		nav = hit.nav
		if c != nil {
			k := fmt.Sprintf("%v|%d|%s@%d", t, depth, nav.Path(), nav.Idx)
			c.Distinct("states", k)
			if later {
				c.Distinct("nontrivial", k, in)
				c.Count("requests_where_a_later_line_also_matched", 1)
			}
		}
		if (r.FlushErr != "" && mode == "long-lived") || !r.Cont {
			return "", "", steps
		}
	}
	return "", "", steps
}

func c03Replay(w json.RawMessage) (string, string) {
	var wit c03Witness
	if err := json.Unmarshal(w, &wit); err != nil {
		return "bad-witness", err.Error()
	}
	s, m, _ := c03History(wit.Table, wit.Depth, wit.Mode, wit.Inputs, nil)
	return s, m
}

func c03Run(c *mc.Ctx) {
	tables := c03Tables()
	modes := []string{"long-lived"}
	if c.Thorough() {
		modes = append(modes, "persisted")
	}
	maxd := 3
	c.Note("tables", fmt.Sprint(len(tables)))
	c.Note("history_depth", fmt.Sprint(maxd))
	for ti, t := range tables {
		if !c.Mine() {
			continue
		}
		for depth := 0; depth < 2; depth++ {
			for _, mode := range modes {
				hist := []string{}
				var rec func()
				rec = func() {
					if len(hist) == maxd {
						sig, msg, steps := c03History(t, depth, mode, hist, c)
						c.Count("evaluations", 1)
						c.Count("transitions", int64(steps))
						if sig != "" {
							c.Fail(sig, msg, c03Witness{Table: t, Depth: depth, Mode: mode, Inputs: append([]string(nil), hist...)})
						}
						return
					}
					ins := c03Inputs
					if len(hist) == maxd-1 {
						ins = append(append([]string{}, ins...), c03LastInputs...)
					}
					for _, in := range ins {
						hist = append(hist, in)
						rec()
						hist = hist[:len(hist)-1]
					}
				}
				rec()
			}
		}
		if ti%900 == 7 {
			c.Sample(map[string]any{"table": t, "inputs": "all histories of depth 3 over 1,2,3,'' (last position also '1 ' and '5%d')", "placed_at_depth": "0 and 1"})
		}
		if c.TimeUp() {
			return
		}
	}
}
