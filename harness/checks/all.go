// Package checks holds one bounded-exhaustive check per property.
package checks

import "verif/mc"

var registry = map[string]*mc.Check{}

func register(c *mc.Check) { registry[c.ID] = c }

// All returns the registered checks by property id.
func All() map[string]*mc.Check { return registry }
