package checks

import (
	"bytes"
	"context"
	"encoding/hex"
	"encoding/json"
	"fmt"
	"runtime"
	"strings"

	"git.defalsify.org/vise.git/cache"
	"git.defalsify.org/vise.git/resource"
	"git.defalsify.org/vise.git/state"
	"git.defalsify.org/vise.git/vm"

	"verif/codec"
	"verif/mc"
)

// C15 — malformed bytecode: exhaustive input-space sweep of the decoder entry points.

func init() {
	register(&mc.Check{
		ID:    "C15",
		Level: "exploration",
		Rule: "exhaustive enumeration of byte strings (all strings up to length L over all 256 values; all strings up to length M over a 12-byte alphabet of opcodes/widths/letters; every truncation and every single-byte substitution of every program of a pool) fed to ParseAll, ToString and Vm.Run, " +
			"each in three presentations (exact-capacity slice, and in front of two different poison tails); oracle = strict reference decoder; an input is non-trivial when the reference classifies it invalid or it holds >=1 complete instruction; distinct = distinct (verdict, reason, instruction count, first opcode) classes",
		Assumptions: []string{"NOOP (opcode 0), zero-length symbols and zero-width integers may be accepted or refused (the statement does not mention them) - but not with a panic", "the fuzzing clause of the quantifier is a different family and is not covered", "Vm.Run: silent accept is only asserted when every instruction before the bad one is straight-line (MOUT/MNEXT/MPREV/MSINK/LOAD/unmatched CROAK/CATCH)"},
		Run:         c15Run,
		Replay:      c15Replay,
		MinItems:    1000,
	})
}

type c15Witness struct {
	Hex   string `json:"bytecode_hex"`
	Entry string `json:"entry"`
	// PrevHex: the input handed to the SAME ParseHandler immediately before (entry "ToString-reused-handler")
	PrevHex string `json:"previous_input_on_same_handler_hex,omitempty"`
}

// a disassembler handle that is reused for every input of this worker, next to the fresh one per call
var c15Shared = vm.NewParseHandler().WithDefaultHandlers()
var c15SharedPrev []byte

func c15Reused(h *vm.ParseHandler, in []byte) (out callOut) {
	defer guard(&out)
	s, err := h.ToString(in)
	out.ok = err == nil
	out.text = s
	return
}

type permRes struct{}

func (permRes) GetTemplate(ctx context.Context, s string) (string, error) { return "", nil }
func (permRes) GetCode(ctx context.Context, s string) ([]byte, error)     { return []byte{}, nil }
func (permRes) GetMenu(ctx context.Context, s string) (string, error)     { return s, nil }
func (permRes) FuncFor(ctx context.Context, s string) (resource.EntryFunc, error) {
	return func(ctx context.Context, sym string, in []byte) (resource.Result, error) {
		return resource.Result{Content: "x"}, nil
	}, nil
}
func (permRes) Close(ctx context.Context) error { return nil }

type callOut struct {
	panicked  bool
	decodePan bool
	panicMsg  string
	ok        bool // err == nil
	text      string
	n         int
}

func (a callOut) same(b callOut) bool {
	return a.panicked == b.panicked && a.ok == b.ok && a.text == b.text && a.n == b.n
}

func decodeFrame(stack string) bool {
	for _, f := range []string{"vm.intSplit", "vm.instructionSplit", "vm.opSplit", "vm.parse", "vm.Parse"} {
		if strings.Contains(stack, f) {
			return true
		}
	}
	// a panic raised by Vm.Run itself - the frame right under the runtime's panic frames - is a panic of
	// the instruction dispatch (an opcode without executor), not of an executor working on state or cache
	lines := strings.Split(stack, "\n")
	last := -1
	for i, l := range lines {
		if strings.HasPrefix(l, "panic(") || strings.HasPrefix(l, "runtime.") {
			last = i
		}
	}
	if last >= 0 && last+2 < len(lines) && strings.Contains(lines[last+2], "vm.(*Vm).Run(") {
		return true
	}
	return false
}

func guard(out *callOut) {
	if r := recover(); r != nil {
		buf := make([]byte, 8192)
		buf = buf[:runtime.Stack(buf, false)]
		out.panicked = true
		out.panicMsg = fmt.Sprint(r)
		out.decodePan = decodeFrame(string(buf))
	}
}

func callToString(b []byte) (out callOut) {
	defer guard(&out)
	s, err := vm.NewParseHandler().WithDefaultHandlers().ToString(b)
	out.ok = err == nil
	out.text = s
	return
}

func callParseAll(b []byte) (out callOut) {
	defer guard(&out)
	_, err := vm.NewParseHandler().WithDefaultHandlers().ParseAll(b)
	out.ok = err == nil
	return
}

var c15Steps int

func callRun(b []byte) (out callOut) {
	defer guard(&out)
	st := state.NewState(2032)
	st.SetInput([]byte("1")) // so that INCMP lines are executed (selector "1" matches, others do not)
	ca := cache.NewCache()
	v := vm.NewVm(st, permRes{}, ca, nil)
	c15Steps = 0
	vm.VerifPoint = func() { c15Steps++ }
	rest, err := v.Run(context.Background(), b)
	vm.VerifPoint = nil
	out.ok = err == nil
	out.n = c15Steps*100000 + len(rest)
	return
}

var poisonA, poisonB []byte

func init() {
	poisonA = bytes.Repeat([]byte{0x01}, 600)
	poisonB = bytes.Repeat([]byte{0x00, 0x07, 0x03, 0xfe}, 150)
}

func present(in []byte, mode int) []byte {
	switch mode {
	case 0:
		b := make([]byte, len(in))
		copy(b, in)
		return b[:len(in):len(in)]
	case 1:
		b := make([]byte, len(in)+len(poisonA))
		copy(b, in)
		copy(b[len(in):], poisonA)
		return b[:len(in)]
	default:
		b := make([]byte, len(in)+len(poisonB))
		copy(b, in)
		copy(b[len(in):], poisonB)
		return b[:len(in)]
	}
}

func straight(i codec.Ins) bool {
	switch i.Op {
	case codec.MOUT, codec.MNEXT, codec.MPREV, codec.MSINK, codec.LOAD:
		return true
	case codec.INCMP:
		// with the permissive resource a matching INCMP moves to a node without code and execution goes on
		// with the next instruction; after a match later INCMP lines are ignored - but they are still decoded
		return true
	case codec.CROAK, codec.CATCH:
		return i.Mode && i.N >= 8 && i.N < 2040
	}
	return false
}

// c15One checks one input at all entry points; returns the first violation.
func c15One(in []byte, only string) (sig, msg, entry string) {
	d := codec.Decode(in)
	type ep struct {
		name string
		fn   func([]byte) callOut
	}
	for _, e := range []ep{{"ToString", callToString}, {"ParseAll", callParseAll}, {"Run", callRun}} {
		if only != "" && only != e.name {
			continue
		}
		var outs [3]callOut
		for m := 0; m < 3; m++ {
			outs[m] = e.fn(present(in, m))
		}
		for m := 0; m < 3; m++ {
			o := outs[m]
			if o.panicked && (e.name != "Run" || o.decodePan) {
				return "decode-panic-" + e.name, fmt.Sprintf("%s(%x) panicked while decoding: %s (reference: %s %s)", e.name, in, o.panicMsg, d.Verdict, d.Reason), e.name
			}
		}
		if !outs[0].same(outs[1]) || !outs[0].same(outs[2]) {
			return "reads-past-end-" + e.name, fmt.Sprintf("%s(%x): result depends on the bytes behind the end of the slice: exact=%+v poisonA=%+v poisonB=%+v", e.name, in, outs[0], outs[1], outs[2]), e.name
		}
		o := outs[0]
		if o.panicked {
			continue
		}
		switch e.name {
		case "ToString", "ParseAll":
			if o.ok && d.Verdict == codec.Invalid {
				return "silent-accept-" + e.name + "-" + d.Reason, fmt.Sprintf("%s(%x) reports success; reference: %s at offset %d", e.name, in, d.Reason, d.BadAt), e.name
			}
			if o.ok && d.Verdict == codec.Valid && e.name == "ToString" && o.text != codec.Listing(d.Prog) {
				return "wrong-listing", fmt.Sprintf("ToString(%x) = %q, reference listing %q", in, o.text, codec.Listing(d.Prog)), e.name
			}
		case "Run":
			if o.ok && d.Verdict == codec.Invalid {
				all := true
				for _, i := range d.Prog {
					if !straight(i) {
						all = false
					}
				}
				if all {
					return "silent-accept-Run-" + d.Reason, fmt.Sprintf("Vm.Run(%x) returns no error; reference: %s at offset %d after %d straight-line instructions", in, d.Reason, d.BadAt, len(d.Prog)), e.name
				}
			}
		}
	}
	return "", "", ""
}

func c15Check(c *mc.Ctx, in []byte) {
	c.Count("evaluations", 1)
	d := codec.Decode(in)
	first := -1
	if len(d.Prog) > 0 {
		first = int(d.Prog[0].Op)
	}
	if d.Verdict == codec.Invalid || len(d.Prog) > 0 {
		c.Distinct("nontrivial", d.Verdict.String(), d.Reason, fmt.Sprint(len(d.Prog)), fmt.Sprint(first))
	}
	c.Count("verdict_"+d.Verdict.String(), 1)
	sig, msg, entry := c15One(in, "")
	if sig != "" {
		c.Fail(sig, msg, c15Witness{Hex: hex.EncodeToString(in), Entry: entry})
	}
	// the same input through the reused handle: the result must not depend on what the handle saw before
	if sig == "" {
		fresh, reused := callToString(present(in, 0)), c15Reused(c15Shared, present(in, 0))
		if !fresh.panicked && !reused.panicked && !fresh.same(reused) {
			c.Fail("disassembler-keeps-state-between-calls", fmt.Sprintf("ToString(%x) on a handler that had processed %x before gives (ok=%v,%q); on a fresh handler (ok=%v,%q)", in, c15SharedPrev, reused.ok, reused.text, fresh.ok, fresh.text),
				c15Witness{Hex: hex.EncodeToString(in), Entry: "ToString-reused-handler", PrevHex: hex.EncodeToString(c15SharedPrev)})
			c15Shared = vm.NewParseHandler().WithDefaultHandlers()
		}
		c15SharedPrev = append([]byte(nil), in...)
	}
}

func c15Replay(w json.RawMessage) (string, string) {
	var wit c15Witness
	if err := json.Unmarshal(w, &wit); err != nil {
		return "bad-witness", err.Error()
	}
	in, err := hex.DecodeString(wit.Hex)
	if err != nil {
		return "bad-witness", err.Error()
	}
	if wit.Entry == "ToString-reused-handler" {
		prev, _ := hex.DecodeString(wit.PrevHex)
		h := vm.NewParseHandler().WithDefaultHandlers()
		c15Reused(h, prev)
		fresh, reused := callToString(present(in, 0)), c15Reused(h, present(in, 0))
		if !fresh.same(reused) {
			return "disassembler-keeps-state-between-calls", fmt.Sprintf("ToString(%x) after %x on the same handler: (ok=%v,%q), fresh handler (ok=%v,%q)", in, prev, reused.ok, reused.text, fresh.ok, fresh.text)
		}
		return "", ""
	}
	sig, msg, _ := c15One(in, wit.Entry)
	return sig, msg
}

var c15Alpha = []byte{0x00, 0x01, 0x02, 0x03, 0x04, 0x05, 0x07, 0x08, 0x0c, 0x0d, 'a', 0xff}

func c15Run(c *mc.Ctx) {
	fullLen, redLen := 2, 5
	if c.Thorough() {
		fullLen, redLen = 3, 7
	}
	// (1a) all strings of length <= fullLen over all byte values; work item = first byte (or the empty string)
	if c.Mine() {
		c15Check(c, []byte{})
	}
	for b0 := 0; b0 < 256; b0++ {
		if !c.Mine() {
			continue
		}
		buf := []byte{byte(b0)}
		c15Check(c, buf)
		if fullLen >= 2 {
			for b1 := 0; b1 < 256; b1++ {
				c15Check(c, []byte{byte(b0), byte(b1)})
				if fullLen >= 3 {
					for b2 := 0; b2 < 256; b2++ {
						c15Check(c, []byte{byte(b0), byte(b1), byte(b2)})
					}
				}
			}
		}
		if c.TimeUp() {
			return
		}
	}
	c.Note("full_alphabet_max_len", fmt.Sprint(fullLen))
	// (1b) all strings of length <= redLen over the reduced alphabet; work item = first two symbols
	na := len(c15Alpha)
	for l := 1; l <= redLen; l++ {
		total := 1
		for i := 0; i < l; i++ {
			total *= na
		}
		chunk := total / (na * na)
		if chunk == 0 {
			chunk = total
		}
		for startIdx := 0; startIdx < total; startIdx += chunk {
			if !c.Mine() {
				continue
			}
			for idx := startIdx; idx < startIdx+chunk && idx < total; idx++ {
				buf := make([]byte, l)
				x := idx
				for i := l - 1; i >= 0; i-- {
					buf[i] = c15Alpha[x%na]
					x /= na
				}
				c15Check(c, buf)
			}
			if c.TimeUp() {
				return
			}
		}
	}
	c.Note("reduced_alphabet_max_len", fmt.Sprint(redLen))
	// (2) truncations and single-byte substitutions of pool programs
	pool := insPool(c.Thorough())
	var progs [][]codec.Ins
	for _, i := range pool {
		progs = append(progs, []codec.Ins{i})
	}
	sub := pool
	if !c.Thorough() {
		sub = nil
		for k, i := range pool {
			if k%4 == 0 {
				sub = append(sub, i)
			}
		}
	}
	for _, i := range sub {
		for _, j := range sub {
			progs = append(progs, []codec.Ins{i, j})
		}
	}
	// programs in which an instruction FOLLOWS a matching INCMP in the same run (input is "1")
	for _, first := range []codec.Ins{{Op: codec.INCMP, Sym: "foo", Sel: "1"}, {Op: codec.INCMP, Sym: "foo", Sel: "*"}} {
		for _, second := range []codec.Ins{{Op: codec.INCMP, Sym: "bar", Sel: "1"}, {Op: codec.INCMP, Sym: "bar", Sel: "2"}, {Op: codec.LOAD, Sym: "foo", N: 300}, {Op: codec.CATCH, Sym: "bar", N: 9, Mode: true}, {Op: codec.MOUT, Sym: "lbl", Sel: "0"}} {
			progs = append(progs, []codec.Ins{first, second}, []codec.Ins{{Op: codec.MOUT, Sym: "x", Sel: "1"}, first, second})
		}
	}
	c.Note("mutant_pool_programs", fmt.Sprint(len(progs)))
	for pi, p := range progs {
		if !c.Mine() {
			continue
		}
		enc := codec.Encode(p)
		if pi < 3 {
			c.Sample(map[string]any{"program": codec.Listing(p), "hex": hex.EncodeToString(enc), "mutations": "every truncation + all 255 substitutions at every position"})
		}
		c15Check(c, enc)
		for cut := 0; cut < len(enc); cut++ {
			c15Check(c, enc[:cut])
			c.Count("truncations", 1)
		}
		// positions: all for short programs; for long symbols only the first 12 and last 4 bytes of the body
		for pos := 0; pos < len(enc); pos++ {
			if len(enc) > 40 && pos > 16 && pos < len(enc)-8 {
				continue
			}
			orig := enc[pos]
			for v := 0; v < 256; v++ {
				if byte(v) == orig {
					continue
				}
				m := make([]byte, len(enc))
				copy(m, enc)
				m[pos] = byte(v)
				c15Check(c, m)
				c.Count("substitutions", 1)
			}
		}
		if c.TimeUp() {
			return
		}
	}
}
