package checks

import (
	"fmt"
	"os"
	"path/filepath"
	"strconv"
	"strings"

	"git.defalsify.org/vise.git/db"
	"git.defalsify.org/vise.git/engine"

	"verif/app"
	"verif/mc"
	"verif/ref"
)

type lsOpts struct {
	Mode    string `json:"mode"`    // long-lived | persisted
	Backend string `json:"backend"` // mem | fs | fsbin (persisted only)
	// DbRes serves the application through resource.DbResource over db/mem (the library's own
	// translation lookup) instead of the harness's recording resource.
	DbRes bool `json:"db_resource,omitempty"`
	// PoRes serves templates and menu labels through resource.PoResource (gettext catalogues on disk).
	PoRes bool `json:"po_resource,omitempty"`
	// DbResFs: resource.DbResource over db/fs in a scratch directory, translations stored as <symbol>_<code>.
	DbResFs bool `json:"db_resource_fs,omitempty"`
	// First gives the engine a first function (engine.WithFirst) that does nothing.
	First bool `json:"first_function,omitempty"`
	Cfg   engine.Config
}

var scratchSeq int

// openBackend returns a session in the requested mode/backend and a cleanup function.
func openBackend(a *app.App, o lsOpts) (*app.Session, func()) {
	cfg := o.Cfg
	if o.Mode == "long-lived" {
		return app.NewSession(a, cfg, app.LongLived), func() {}
	}
	if o.Mode == "kept-state" {
		s := app.NewSession(a, cfg, app.KeptState)
		s.FinishOnError = true
		return s, func() {}
	}
	if cfg.SessionId == "" {
		cfg.SessionId = "s1"
	}
	s := app.NewSession(a, cfg, app.Persisted)
	if o.Mode == "long-lived-persister" {
		s.Mode = app.KeptEngine
	}
	s.FinishOnError = true
	cleanup := func() {}
	switch o.Backend {
	case "fs", "fsbin":
		scratchSeq++
		dir := filepath.Join(mc.Scratch(), fmt.Sprintf("sess%d", scratchSeq))
		os.MkdirAll(dir, 0o700)
		s.Open = app.FsStore(dir, o.Backend == "fsbin")
		cleanup = func() { os.RemoveAll(dir) }
	default:
		if f, ok := extraBackends[o.Backend]; ok {
			s.Open = f()
		} else {
			s.Open = app.MemStore()
		}
	}
	return s, cleanup
}

// extraBackends lets other files register more persisted backends (Postgres over the in-process fake).
var extraBackends = map[string]func() func() db.Db{}

// lockstep serves the input history on the implementation and on the reference VM and compares
// every observable the documentation defines, after every request.
func lockstep(a *app.App, o lsOpts, inputs []string, visit func(k int, rv *ref.VM, got app.Resp, want ref.Resp)) (sig, msg string, reqs int) {
	return lockstepEnv(a, o, inputs, nil, visit)
}

// lockstepEnv is lockstep with an answer oracle shared by the implementation's and the reference's
// environment (external-function answers as choice points).
func lockstepEnv(a *app.App, o lsOpts, inputs []string, pick func(label string, n int) int, visit func(k int, rv *ref.VM, got app.Resp, want ref.Resp)) (sig, msg string, reqs int) {
	if o.First && !a.First {
		b := *a
		b.First = true
		a = &b
	}
	s, cleanup := openBackend(a, o)
	defer cleanup()
	if o.DbRes {
		s.Res = app.NewDbRes(a, s.Env)
	}
	if o.DbResFs {
		scratchSeq++
		dir := filepath.Join(mc.Scratch(), fmt.Sprintf("dbres%d", scratchSeq))
		os.MkdirAll(dir, 0o700)
		defer os.RemoveAll(dir)
		s.Res = app.NewDbResFs(a, s.Env, dir)
	}
	if o.PoRes {
		scratchSeq++
		dir := filepath.Join(mc.Scratch(), fmt.Sprintf("po%d", scratchSeq))
		defer os.RemoveAll(dir)
		s.Res = app.NewPoRes(a, s.Env, dir)
	}
	rv := newRef(a, o.Mode, o.Cfg)
	s.Env.Answer, rv.Env.Answer = pick, pick
	cacheComparable := true
	for k, in := range inputs {
		var beforeKey string
		if s.St != nil {
			beforeKey = app.StateKey(s.St, s.Ca)
		}
		beforePath := rv.Nav.Path()
		want := rv.Request([]byte(in))
		got := s.Request([]byte(in))
		reqs++
		where := fmt.Sprintf("%s/%s request %d inputs %q (at %s)", o.Mode, o.Backend, k, inputs[:k+1], beforePath)
		if got.Panic != "" {
			return "panic", fmt.Sprintf("%s: panic %s", where, got.Panic), reqs
		}
		if got.Budget {
			return "nontermination", fmt.Sprintf("%s: instruction budget exceeded", where), reqs
		}
		if want.Undefined {
			return "", "", reqs
		}
		if want.ErrOrCatch {
			top := ""
			if s.St != nil && len(s.St.ExecPath) > 0 {
				top = s.St.ExecPath[len(s.St.ExecPath)-1]
			}
			if got.ExecErr == "" && top != "_catch" {
				return "failing-instruction-accepted", fmt.Sprintf("%s: an instruction that must fail was accepted (output %q)", where, short(got.Out)), reqs
			}
			if rv.Flags[ref.FlagTerminate] {
				// the failing function did set TERMINATE: whatever else the failure leaves behind, every
				// later request is blocked - the history goes on with that expectation only
				cacheComparable = false
				continue
			}
			return "", "", reqs
		}
		if want.Blocked {
			if got.Steps != 0 {
				return "instruction-runs-while-terminated", fmt.Sprintf("%s: %d instructions executed while TERMINATE is set", where, got.Steps), reqs
			}
			if len(funcCalls(got.Calls)) != 0 {
				return "external-call-while-terminated", fmt.Sprintf("%s: external functions %v called while TERMINATE is set", where, funcCalls(got.Calls)), reqs
			}
			if len(got.Calls) != 0 && !o.DbRes && !o.PoRes && !o.DbResFs {
				// "running nothing": not even a template or menu lookup (a render attempt) is made for a blocked request
				return "lookup-while-terminated", fmt.Sprintf("%s: the blocked request made resource lookups %v", where, got.Calls), reqs
			}
			if got.FlushErr != "" {
				return "render-attempt-while-terminated", fmt.Sprintf("%s: the blocked request reports a flush error (%s): something was rendered", where, got.FlushErr), reqs
			}
			if got.Out != "" {
				return "output-while-terminated", fmt.Sprintf("%s: output %q while TERMINATE is set", where, got.Out), reqs
			}
			if got.Cont {
				return "continue-while-terminated", fmt.Sprintf("%s: request reports continue while TERMINATE is set", where), reqs
			}
			if s.St != nil && beforeKey != "" {
				cut := func(k string) string {
					// DIRTY (a page is pending) is housekeeping of the renderer: a blocked request may drop it
					if i := strings.Index(k, " flags="); i >= 0 && len(k) >= i+9 {
						if b, err := strconv.ParseUint(k[i+7:i+9], 16, 8); err == nil {
							k = k[:i+7] + fmt.Sprintf("%02x", b&^0x10) + k[i+9:]
						}
					}
					// pending bytecode of a blocked session cannot run; whether it is kept is not observable
					if i := strings.Index(k, " code="); i >= 0 {
						j := strings.Index(k, " | ")
						return k[:i] + k[j:]
					}
					return k
				}
				if bf, af := cut(beforeKey), cut(app.StateKey(s.St, s.Ca)); bf != af {
					return "state-changes-while-terminated", fmt.Sprintf("%s: state changed while blocked: %s -> %s", where, bf, af), reqs
				}
			}
			if visit != nil {
				visit(k, rv, got, want)
			}
			continue
		}
		if o.DbRes || o.DbResFs {
			// static symbols are served by the DbResource itself and are not recorded as calls
			var kept []string
			for _, cl := range want.Calls {
				if _, st := a.Static[cl]; !st {
					kept = append(kept, cl)
				}
			}
			want.Calls = kept
		}
		if !sameStrings(funcCalls(got.Calls), want.Calls) {
			return "call-log-differs", fmt.Sprintf("%s: external calls %v, documented semantics give %v", where, funcCalls(got.Calls), want.Calls), reqs
		}
		if want.Err != (got.ExecErr != "") {
			return "error-differs", fmt.Sprintf("%s: exec error %q, reference expects error=%v", where, got.ExecErr, want.Err), reqs
		}
		if want.Err {
			if visit != nil {
				visit(k, rv, got, want)
			}
			continue
		}
		if got.Cont != want.Cont {
			return "continue-differs", fmt.Sprintf("%s: cont=%v, reference %v (ends %q)", where, got.Cont, want.Cont, want.Ends), reqs
		}
		if want.Croaked {
			cacheComparable = false
		}
		if s.St == nil {
			return "no-state", fmt.Sprintf("%s: engine has no state after a successful request", where), reqs
		}
		if path := strings.Join(s.St.ExecPath, "/"); path != rv.Nav.Path() {
			sg := "position-differs"
			if want.Ends == "graceful" {
				sg = "graceful-end-position"
			}
			return sg, fmt.Sprintf("%s: at %s, reference at %s", where, path, rv.Nav.Path()), reqs
		}
		if s.St.SizeIdx != rv.Nav.Idx && want.Ends != "graceful" {
			return "index-differs", fmt.Sprintf("%s: page index %d, reference %d", where, s.St.SizeIdx, rv.Nav.Idx), reqs
		}
		if flagSet(s.St.Flags, 6) != rv.Flags[6] {
			return "terminate-flag-differs", fmt.Sprintf("%s: TERMINATE=%v, reference %v", where, flagSet(s.St.Flags, 6), rv.Flags[6]), reqs
		}
		if uf := userFlags(s.St.Flags); uf != rv.UserFlags() {
			sg := "client-flags-differ"
			if want.Ends == "graceful" {
				sg = "graceful-end-client-flags"
			}
			return sg, fmt.Sprintf("%s: client flags %s, reference %s", where, uf, rv.UserFlags()), reqs
		}
		if cacheComparable {
			if ik := implCacheKey(s.Ca); ik != rv.CacheKey() {
				sg := "cache-differs"
				if want.Ends == "graceful" {
					sg = "graceful-end-cache-not-empty"
				}
				return sg, fmt.Sprintf("%s: cache is %s, documented semantics give %s", where, ik, rv.CacheKey()), reqs
			}
		}
		lg := ""
		if s.St.Language != nil {
			lg = s.St.Language.Code
		}
		if lg != rv.Lang {
			return "language-differs", fmt.Sprintf("%s: language %q, reference %q", where, lg, rv.Lang), reqs
		}
		if want.OutKnown && want.Ends != "abnormal" {
			if want.FlushErr && got.FlushErr == "" && want.HaveAlt && got.Out == want.OutAlt {
				// accepted alternative for a final page that cannot be rendered (see ref.VM)
			} else if want.FlushErr != (got.FlushErr != "") {
				return "render-error-differs", fmt.Sprintf("%s: flush error %q, reference expects error=%v", where, got.FlushErr, want.FlushErr), reqs
			}
			if !want.FlushErr && got.Out != want.Out && !(want.HaveAlt && got.Out == want.OutAlt) {
				sg := "output-differs"
				if want.Ends == "graceful" {
					sg = "final-output-differs"
				}
				return sg, fmt.Sprintf("%s: output %q, documented semantics give %q", where, short(got.Out), short(want.Out)), reqs
			}
		}
		if visit != nil {
			visit(k, rv, got, want)
		}
		if o.Mode == "long-lived" && (got.FlushErr != "" || !got.Cont) {
			break
		}
	}
	return "", "", reqs
}

// histories enumerates all sequences of exactly n inputs over alpha, calling f for each.
func histories(alpha []string, n int, f func(h []string)) {
	cur := make([]string, 0, n)
	var rec func()
	rec = func() {
		if len(cur) == n {
			f(append([]string(nil), cur...))
			return
		}
		for _, a := range alpha {
			cur = append(cur, a)
			rec()
			cur = cur[:len(cur)-1]
		}
	}
	rec()
}
