package checks

import (
	"encoding/base64"
	"encoding/json"
	"fmt"
	"path"
	"sort"
	"strconv"
	"strings"

	"git.defalsify.org/vise.git/db"

	"verif/mc"
	"verif/ref"
)

// C11 — sessions and data types never see each other's stored data.

func init() {
	register(&mc.Check{
		ID:    "C11",
		Level: "model_checking",
		Rule: "universe U of entries (type, session, key): all six data types; session ids = all strings of length <=2 over G plus {00, ff, a_nor}; keys = all strings of length 1-2 over G plus {00, ff, a 00, a_nor, a.bin, a.a, Pa.a, @a.a}; G={a,.,@,P,/} quick, {a,b,.,_,@,P,1,/} thorough; " +
			"for the four types documented as not session-scoped only the empty session is used; entries whose Put the backend refuses (or whose file name would leave the scratch directory) are dropped. On mem, fs text and fs binary-key: " +
			"pass A writes every entry a unique value into one store and reads all back (own value expected); pass B, per session id s, writes all entries of s and then Gets every entry of every other session and (fs) lists every other session: nothing may come back; " +
			"pass C the same partitioned by data type; pass D, for each structurally suspected collision shape (same type and equal session.key concatenation; fs primary/legacy file names equal, also after path cleaning), all sequences of <=d writes/reads (d=3 quick, 4 thorough) over the <=6 entries around one representative pair (the pair plus near-miss neighbours that must stay apart). " +
			"Every foreign read found in A-C is re-executed as a minimal 2-3 operation experiment on fresh storage and reported from that. Oracle: a read or listing returns only what was written to the same (type, session, key); states = distinct (backend, stored content) situations; non-trivial = distinct (pass, backend, reader type, writer type, outcome) classes",
		Assumptions: []string{
			"for BIN, MENU, TEMPLATE, STATICLOAD the session id is documented as ignored, so only the empty session is enumerated for them",
			"language stays unset (nil) throughout; a language-like suffix is only a key/session suffix here",
			"an error of any kind on a foreign read is acceptable; only returned data is a violation",
			"listing is exercised on the filesystem backend only",
		},
		Run:      c11Run,
		Replay:   c11Replay,
		MinItems: 60,
	})
}

type c11Triple struct {
	Typ  uint8  `json:"typ"`
	Sess ref.Bs `json:"sess"`
	Key  ref.Bs `json:"key"`
}

func (t c11Triple) String() string {
	return fmt.Sprintf("(%s, session %s, key %s)", ref.TypName(t.Typ), strconv.QuoteToASCII(string(t.Sess)), strconv.QuoteToASCII(string(t.Key)))
}

func (t c11Triple) cell() ref.Cell { return ref.NormCell(t.Typ, string(t.Sess), "", string(t.Key)) }

type c11Witness struct {
	Kind    string      `json:"kind"` // read | overwrite | list | interleaving
	Backend string      `json:"backend"`
	Sig     string      `json:"sig"`
	Writer  *c11Triple  `json:"writer,omitempty"`
	Reader  *c11Triple  `json:"reader,omitempty"`
	Triples []c11Triple `json:"triples,omitempty"`
	Seq     []int       `json:"seq,omitempty"` // letter 2i = write triple i, 2i+1 = read triple i
	// kind "context": the foreign read only shows with the whole pass content present
	Pass     string `json:"pass,omitempty"`     // A | B | C
	SelSess  ref.Bs `json:"sel_sess,omitempty"` // pass B: the session whose entries are written
	SelTyp   uint8  `json:"sel_typ,omitempty"`  // pass C: the data type whose entries are written
	Thorough bool   `json:"thorough,omitempty"`
	Mode     string `json:"mode,omitempty"` // read | list
}

func c11Selected(w c11Witness, t c11Triple) bool {
	switch w.Pass {
	case "B":
		return ref.Sessioned(t.Typ) && t.Sess == w.SelSess
	case "C":
		return t.Typ == w.SelTyp
	}
	return true
}

// c11Context re-executes a whole pass content and then the one read/listing that showed foreign data.
func c11Context(w c11Witness) (sig, msg string, steps int) {
	b, ok := kvBackendByName(w.Backend)
	if !ok || w.Reader == nil {
		return "bad-witness", "backend/reader", 0
	}
	_, _, u := c11Universe(w.Thorough)
	x, err := c11Open(b)
	if err != nil {
		return "open-fails@" + b.Name, err.Error(), 0
	}
	defer x.close()
	own := ""
	for i, t := range u {
		if !c11Selected(w, t) {
			continue
		}
		v := "v" + strconv.Itoa(i)
		if ok, _ := x.put(t, v); ok && t.cell() == w.Reader.cell() {
			own = v
		}
	}
	name := "other-foreign-data-in-context@" + b.Name
	if w.Mode == "list" {
		o := x.list(w.Reader.Typ, string(w.Reader.Sess))
		if o.Err == nil && o.Panic == "" {
			for _, p := range o.List {
				if len(p.V) > 1 && p.V[0] == 'v' {
					if j, err := strconv.Atoi(p.V[1:]); err == nil && j < len(u) && (u[j].Typ != w.Reader.Typ || (ref.Sessioned(u[j].Typ) && u[j].Sess != w.Reader.Sess)) {
						return name, fmt.Sprintf("[%s] with all entries of pass %s (%q/%s) stored, Dump under %s session %q lists %q holding the value written to %s", b.Name, w.Pass, string(w.SelSess), ref.TypName(w.SelTyp), ref.TypName(w.Reader.Typ), string(w.Reader.Sess), p.K, u[j]), x.steps
					}
				}
			}
		}
		return "", "", x.steps
	}
	o := x.get(*w.Reader)
	if o.Err == nil && o.Panic == "" && string(o.Val) != own {
		return name, fmt.Sprintf("[%s] with all entries of pass %s (%q/%s) stored, Get %s returns %q (own value %q)", b.Name, w.Pass, string(w.SelSess), ref.TypName(w.SelTyp), *w.Reader, o.Val, own), x.steps
	}
	return "", "", x.steps
}

// ... and two application-defined types above the built-in ones (64, 128): like state and user data they are stored per session
var c11Types = []uint8{ref.TBin, ref.TMenu, ref.TTemplate, ref.TStaticLoad, ref.TState, ref.TUserData, 64, 128}

func c11Strings(gamma []string, min, max int) []string {
	var out []string
	var rec func(cur string, n int)
	rec = func(cur string, n int) {
		if n >= min {
			out = append(out, cur)
		}
		if n == max {
			return
		}
		for _, g := range gamma {
			rec(cur+g, n+1)
		}
	}
	rec("", 0)
	sort.SliceStable(out, func(i, j int) bool { return len(out[i]) < len(out[j]) })
	return out
}

func c11Universe(thorough bool) (sessions, keys []string, u []c11Triple) {
	gamma := []string{"a", ".", "@", "P", "/"}
	if thorough {
		gamma = []string{"a", "b", ".", "_", "@", "P", "1", "/"}
	}
	sessions = append(c11Strings(gamma, 0, 2), "\x00", "\xff", "a_nor", "a ", " a", "a\n", " ") // ... and ids that differ from "a" / "" only by white space
	keys = append(c11Strings(gamma, 1, 2), "\x00", "\xff", "a\x00", "a_nor", "a.bin", "a.a", "Pa.a", "@a.a")
	for _, t := range c11Types {
		for _, s := range sessions {
			if !ref.Sessioned(t) && s != "" {
				continue
			}
			for _, k := range keys {
				u = append(u, c11Triple{t, ref.Bs(s), ref.Bs(k)})
			}
		}
	}
	return
}

// ---- representation knowledge: used to pick pass-D candidates, to keep fs inside its scratch
// directory, and to give a behavioural finding its signature. Never used to decide pass/fail.

func c11Concat(b kvBackend, t c11Triple) string {
	k := string(t.Key)
	if b.Binary {
		k = base64.StdEncoding.EncodeToString([]byte(k))
	}
	if ref.Sessioned(t.Typ) && t.Sess != "" {
		return string(t.Sess) + "." + k
	}
	return k
}

func c11Primary(b kvBackend, t c11Triple) string {
	return string([]byte{t.Typ + 0x30}) + c11Concat(b, t)
}

func c11Legacy(b kvBackend, t c11Triple) string {
	n := c11Concat(b, t)
	if t.Typ == ref.TBin {
		n += ".bin"
	}
	return n
}

func c11Clean(name string) string { return path.Clean("/R/g/d/" + name) }

// c11Unsafe: a file name that, after cleaning, is not below the per-execution root (never happens inside U; guard).
func c11Unsafe(b kvBackend, t c11Triple) bool {
	if b.Kind != "fs" {
		return false
	}
	for _, n := range []string{c11Primary(b, t), c11Legacy(b, t)} {
		c := c11Clean(n)
		if !strings.HasPrefix(c, "/R/") {
			return true
		}
	}
	return false
}

// c11Classify names the mechanism by which reader saw writer's data on backend b.
func c11Classify(b kvBackend, reader, writer c11Triple) string {
	if reader.Typ == writer.Typ && c11Concat(b, reader) == c11Concat(b, writer) {
		return "session-key-concat-collision@" + b.Name
	}
	if b.Kind == "fs" {
		if c11Legacy(b, reader) == c11Primary(b, writer) {
			return "fs-legacy-name-collision@" + b.Name
		}
		pw := c11Clean(c11Primary(b, writer))
		if c11Clean(c11Primary(b, reader)) == pw || c11Clean(c11Legacy(b, reader)) == pw {
			return "fs-path-normalisation-collision@" + b.Name
		}
	}
	return "other-foreign-data-returned@" + b.Name
}

// c11ClassifyList: listing under (typ, sess) showed key lk holding writer's data.
func c11ClassifyList(b kvBackend, typ uint8, sess string, lk string, writer c11Triple) string {
	pseudo := c11Triple{typ, ref.Bs(sess), ref.Bs(lk)}
	if typ == writer.Typ && c11Concat(b, pseudo) == c11Concat(b, writer) {
		return "session-key-concat-collision@" + b.Name
	}
	if b.Kind == "fs" && c11Clean(c11Primary(b, pseudo)) == c11Clean(c11Primary(b, writer)) {
		return "fs-path-normalisation-collision@" + b.Name
	}
	return "other-foreign-data-listed@" + b.Name
}

// ---- execution helpers

type c11Handle struct {
	b     kvBackend
	st    kvStore
	h     db.Db
	steps int
}

func c11Open(b kvBackend) (*c11Handle, error) {
	st := b.New()
	h, err := st.open()
	if err != nil {
		st.cleanup()
		return nil, err
	}
	for _, t := range []uint8{ref.TBin, ref.TMenu, ref.TTemplate, ref.TStaticLoad} {
		if err := h.SetLock(t, false); err != nil {
			st.cleanup()
			return nil, err
		}
	}
	return &c11Handle{b: b, st: st, h: h}, nil
}

func (x *c11Handle) close() { x.st.cleanup() }

func (x *c11Handle) at(t c11Triple) {
	x.h.SetPrefix(t.Typ)
	x.h.SetSession(string(t.Sess))
}

// put reports whether the backend accepted the write.
func (x *c11Handle) put(t c11Triple, v string) (ok bool, panicked string) {
	if c11Unsafe(x.b, t) {
		return false, ""
	}
	x.at(t)
	o := kvApply(x.h, ref.KVOp{Op: "put", Key: t.Key, Val: ref.Bs(v)})
	x.steps++
	return o.Err == nil && o.Panic == "", o.Panic
}

func (x *c11Handle) get(t c11Triple) kvObs {
	if c11Unsafe(x.b, t) {
		return kvObs{Err: fmt.Errorf("skipped")}
	}
	x.at(t)
	x.steps++
	return kvApply(x.h, ref.KVOp{Op: "get", Key: t.Key})
}

func (x *c11Handle) list(typ uint8, sess string) kvObs {
	x.h.SetPrefix(typ)
	x.h.SetSession(sess)
	x.steps++
	return kvApply(x.h, ref.KVOp{Op: "dump", Key: ""})
}

// c11Experiment re-executes one foreign read as a minimal experiment on fresh storage.
func c11Experiment(w c11Witness) (sig, msg string, steps int) {
	b, ok := kvBackendByName(w.Backend)
	if !ok {
		return "bad-witness", "unknown backend " + w.Backend, 0
	}
	if w.Kind == "context" {
		return c11Context(w)
	}
	if w.Kind == "interleaving" {
		vs, st := c11Interleave(b, w.Triples, w.Seq, nil)
		for _, v := range vs {
			if v.Sig == w.Sig {
				return v.Sig, v.Msg, st
			}
		}
		if len(vs) > 0 {
			return vs[0].Sig, vs[0].Msg, st
		}
		return "", "", st
	}
	if w.Writer == nil || w.Reader == nil {
		return "bad-witness", "writer/reader missing", 0
	}
	x, err := c11Open(b)
	if err != nil {
		return "open-fails@" + b.Name, err.Error(), 0
	}
	defer x.close()
	defer func() { steps = x.steps }()
	wr, rd := *w.Writer, *w.Reader
	switch w.Kind {
	case "read":
		if ok, p := x.put(wr, "w"); !ok {
			if p != "" {
				return "panic-put@" + b.Name, fmt.Sprintf("Put %s panicked: %s", wr, p), 0
			}
			return "", "", 0
		}
		o := x.get(rd)
		if o.Panic != "" {
			return "panic-get@" + b.Name, fmt.Sprintf("Get %s panicked: %s", rd, o.Panic), 0
		}
		if o.Err == nil {
			return c11Classify(b, rd, wr), fmt.Sprintf("[%s] Put %s = \"w\"; Get %s (never written) returns %q", b.Name, wr, rd, o.Val), 0
		}
	case "overwrite":
		if ok, _ := x.put(rd, "r"); !ok {
			return "", "", 0
		}
		if ok, _ := x.put(wr, "w"); !ok {
			return "", "", 0
		}
		o := x.get(rd)
		if o.Panic != "" {
			return "panic-get@" + b.Name, fmt.Sprintf("Get %s panicked: %s", rd, o.Panic), 0
		}
		if o.Err != nil {
			return "other-written-entry-lost@" + b.Name, fmt.Sprintf("[%s] Put %s = \"r\"; Put %s = \"w\"; Get of the first fails: %v", b.Name, rd, wr, o.Err), 0
		}
		if string(o.Val) != "r" {
			return c11Classify(b, rd, wr), fmt.Sprintf("[%s] Put %s = \"r\"; Put %s = \"w\"; Get of the first returns %q", b.Name, rd, wr, o.Val), 0
		}
	case "list":
		if ok, _ := x.put(wr, "w"); !ok {
			return "", "", 0
		}
		o := x.list(rd.Typ, string(rd.Sess))
		if o.Panic != "" {
			return "panic-dump@" + b.Name, fmt.Sprintf("Dump under %s/%q panicked: %s", ref.TypName(rd.Typ), string(rd.Sess), o.Panic), 0
		}
		if o.Err == nil && len(o.List) > 0 {
			return c11ClassifyList(b, rd.Typ, string(rd.Sess), o.List[0].K, wr), fmt.Sprintf("[%s] Put %s = \"w\"; Dump(\"\") under %s session %q (nothing written) lists %q=%q", b.Name, wr, ref.TypName(rd.Typ), string(rd.Sess), o.List[0].K, o.List[0].V), 0
		}
	}
	return "", "", 0
}

func c11Replay(w json.RawMessage) (string, string) {
	var wit c11Witness
	if err := json.Unmarshal(w, &wit); err != nil {
		return "bad-witness", err.Error()
	}
	if wit.Kind == "persist" || wit.Kind == "ctx" || wit.Kind == "related-list" || wit.Kind == "copy" {
		var ew c11ExtraWitness
		if err := json.Unmarshal(w, &ew); err != nil {
			return "bad-witness", err.Error()
		}
		return c11ExtraReplay(ew)
	}
	s, m, _ := c11Experiment(wit)
	return s, m
}

// c11Interleave runs one write/read sequence over a small set of entries against a plain map.
func c11Interleave(b kvBackend, ts []c11Triple, seq []int, visit func(content string)) (viols []kvViol, steps int) {
	x, err := c11Open(b)
	if err != nil {
		return []kvViol{{"open-fails@" + b.Name, err.Error()}}, 0
	}
	defer x.close()
	model := map[ref.Cell]string{}
	owner := map[string]int{} // value -> index of the entry it was written to
	refused := map[int]bool{}
	seen := map[string]bool{}
	desc := func(n int) string {
		var s []string
		for _, l := range seq[:n] {
			if l%2 == 0 {
				s = append(s, "Put"+ts[l/2].String())
			} else {
				s = append(s, "Get"+ts[l/2].String())
			}
		}
		return strings.Join(s, "; ")
	}
	for pos, l := range seq {
		i := l / 2
		t := ts[i]
		if l%2 == 0 {
			v := "w" + strconv.Itoa(pos)
			ok, p := x.put(t, v)
			if p != "" {
				viols = append(viols, kvViol{"panic-put@" + b.Name, fmt.Sprintf("[%s] %s panicked: %s", b.Name, desc(pos+1), p)})
				break
			}
			if !ok {
				refused[i] = true // "for any session ids and keys the backend accepts"
				continue
			}
			model[t.cell()] = v
			owner[v] = i
			continue
		}
		o := x.get(t)
		if o.Panic != "" {
			viols = append(viols, kvViol{"panic-get@" + b.Name, fmt.Sprintf("[%s] %s panicked: %s", b.Name, desc(pos+1), o.Panic)})
			break
		}
		want, have := model[t.cell()]
		var sig, msg string
		switch {
		case o.Err != nil && have && !refused[i]:
			sig, msg = "other-written-entry-lost@"+b.Name, fmt.Sprintf("[%s] %s: the last read fails (%v) although %q was written there", b.Name, desc(pos+1), o.Err, want)
		case o.Err == nil && (!have || string(o.Val) != want):
			if j, ok := owner[string(o.Val)]; ok && ts[j].cell() != t.cell() {
				sig = c11Classify(b, t, ts[j])
				msg = fmt.Sprintf("[%s] %s: the last read returns %q, which was written to %s", b.Name, desc(pos+1), o.Val, ts[j])
			} else if ok {
				sig, msg = "other-stale-value@"+b.Name, fmt.Sprintf("[%s] %s: the last read returns %q, an older value of the same entry (latest %q)", b.Name, desc(pos+1), o.Val, want)
			} else {
				sig, msg = "other-unknown-data-returned@"+b.Name, fmt.Sprintf("[%s] %s: the last read returns %q which nobody wrote", b.Name, desc(pos+1), o.Val)
			}
		}
		if sig != "" && !seen[sig] {
			seen[sig] = true
			viols = append(viols, kvViol{sig, msg})
		}
	}
	if visit != nil {
		var ks []string
		for c, v := range model {
			ks = append(ks, c.String()+"="+v[:1])
		}
		sort.Strings(ks)
		visit(strings.Join(ks, ","))
	}
	return viols, x.steps
}

// ---- pass D candidates

type c11Class struct {
	Shape   string
	Triples []c11Triple
}

func c11Shapes(backends []kvBackend, u []c11Triple) []c11Class {
	byShape := map[string]bool{}
	var out []c11Class
	add := func(rel string, b kvBackend, x, y c11Triple) {
		if x.cell() == y.cell() {
			return
		}
		cat := func(t uint8) string {
			switch {
			case t == ref.TBin:
				return "bin"
			case ref.Sessioned(t):
				return "sessioned"
			}
			return "readonly"
		}
		flag := func(v bool, s string) string {
			if v {
				return s
			}
			return "-"
		}
		slash := strings.Contains(string(x.Sess)+string(x.Key)+string(y.Sess)+string(y.Key), "/")
		special := func(t c11Triple) string { // which type-prefix character leads the reader's name
			n := string(t.Sess) + string(t.Key)
			if n != "" && strings.ContainsRune("@P1", rune(n[0])) {
				return n[:1]
			}
			return "-"
		}
		shape := fmt.Sprintf("%s|%s|reader:%s,%s,%s|writer:%s,%s|%s|%s", rel, b.Name, cat(x.Typ), flag(x.Sess == "", "nosession"), special(x),
			cat(y.Typ), flag(y.Sess == "", "nosession"), flag(x.Typ == y.Typ, "sametype"), flag(slash, "slash"))
		if byShape[shape] {
			return
		}
		byShape[shape] = true
		other := func(t uint8) uint8 {
			switch t {
			case ref.TState:
				return ref.TUserData
			case ref.TUserData:
				return ref.TState
			case ref.TTemplate:
				return ref.TMenu
			}
			return ref.TTemplate
		}
		cand := []c11Triple{x, y,
			{x.Typ, y.Sess, y.Key}, {y.Typ, x.Sess, x.Key},
			{other(x.Typ), x.Sess, x.Key}, {other(y.Typ), y.Sess, y.Key},
			{x.Typ, "", ref.Bs(string(x.Sess) + string(x.Key))}}
		var ts []c11Triple
		have := map[ref.Cell]bool{}
		for _, t := range cand {
			if !ref.Sessioned(t.Typ) {
				t.Sess = ""
			}
			if t.Key == "" || have[t.cell()] || len(ts) == 6 {
				continue
			}
			have[t.cell()] = true
			ts = append(ts, t)
		}
		tk := fmt.Sprint(ts)
		if byShape["T"+tk] {
			return
		}
		byShape["T"+tk] = true
		out = append(out, c11Class{Shape: shape, Triples: ts})
	}
	for _, b := range backends {
		if b.Kind == "pg" {
			continue
		}
		group := func(rel string, nameOf func(c11Triple) string, readerNameOf func(c11Triple) string) {
			idx := map[string][]int{}
			for i, t := range u {
				n := nameOf(t)
				if len(idx[n]) < 4 {
					idx[n] = append(idx[n], i)
				}
			}
			for i, t := range u {
				for _, j := range idx[readerNameOf(t)] {
					if j != i {
						add(rel, b, t, u[j])
					}
				}
			}
		}
		concat := func(t c11Triple) string { return string([]byte{t.Typ}) + c11Concat(b, t) }
		group("concat", concat, concat)
		if b.Kind == "fs" {
			prim := func(t c11Triple) string { return c11Clean(c11Primary(b, t)) }
			leg := func(t c11Triple) string { return c11Clean(c11Legacy(b, t)) }
			group("primary", prim, prim)
			group("legacy", prim, leg)
		}
	}
	sort.Slice(out, func(i, j int) bool { return out[i].Shape < out[j].Shape })
	return out
}

// ---- driver

func c11Run(c *mc.Ctx) {
	sessions, keys, u := c11Universe(c.Thorough())
	backends := kvBackends()
	c.Note("sessions", fmt.Sprint(len(sessions)))
	c.Note("keys", fmt.Sprint(len(keys)))
	c.Note("universe", fmt.Sprint(len(u)))
	depth := 3
	if c.Thorough() {
		depth = 4
	}
	c.Note("passD_depth", fmt.Sprint(depth))
	c.Vacuity("universe-size", len(u) >= 2000)

	val := func(i int) string { return "v" + strconv.Itoa(i) }
	idx := func(v []byte) (int, bool) {
		if len(v) < 2 || v[0] != 'v' {
			return 0, false
		}
		n, err := strconv.Atoi(string(v[1:]))
		return n, err == nil && n >= 0 && n < len(u)
	}
	outcome := func(pass string, b kvBackend, rd, wr c11Triple, what string) {
		c.Distinct("nontrivial", pass, b.Name, ref.TypName(rd.Typ), ref.TypName(wr.Typ), what)
	}
	// confirm a foreign read by the minimal experiment and report from it
	var cur c11Witness // selection of the pass being executed (Pass, SelSess, SelTyp)
	confirm := func(pass, kind string, b kvBackend, wr, rd c11Triple, ctxMsg string) {
		w := c11Witness{Kind: kind, Backend: b.Name, Writer: &wr, Reader: &rd}
		sig, msg, steps := c11Experiment(w)
		c.Count("transitions", int64(steps))
		c.Count("experiments", 1)
		if sig == "" {
			// not visible with the two entries alone: keep the whole pass content as the witness
			w = c11Witness{Kind: "context", Backend: b.Name, Reader: &rd, Writer: &wr, Pass: cur.Pass, SelSess: cur.SelSess, SelTyp: cur.SelTyp, Thorough: c.Thorough(), Mode: "read"}
			if kind == "list" {
				w.Mode = "list"
			}
			sig, msg, steps = c11Context(w)
			c.Count("transitions", int64(steps))
			if sig == "" {
				sig, msg = "other-foreign-data-not-reproduced@"+b.Name, ctxMsg+" — not reproduced by re-executing the pass content"
			}
		}
		w.Sig = sig
		outcome(pass, b, rd, wr, sig)
		c.Fail(sig, msg, w)
	}
	writeAll := func(x *c11Handle, sel func(c11Triple) bool, refused []bool) int {
		n := 0
		for i, t := range u {
			if !sel(t) {
				continue
			}
			ok, p := x.put(t, val(i))
			if p != "" {
				tt := t
				c.Fail("panic-put@"+x.b.Name, fmt.Sprintf("Put %s panicked: %s", t, p), c11Witness{Kind: "read", Backend: x.b.Name, Sig: "panic-put@" + x.b.Name, Writer: &tt, Reader: &tt})
			}
			if !ok {
				refused[i] = true
				c.Count("refused_puts", 1)
				continue
			}
			n++
		}
		return n
	}
	// read every entry NOT selected by sel; anything returned is foreign
	readOthers := func(pass string, x *c11Handle, sel func(c11Triple) bool) {
		for _, t := range u {
			if sel(t) {
				continue
			}
			o := x.get(t)
			if o.Panic != "" {
				tt := t
				c.Fail("panic-get@"+x.b.Name, fmt.Sprintf("Get %s panicked: %s", t, o.Panic), c11Witness{Kind: "read", Backend: x.b.Name, Sig: "panic-get@" + x.b.Name, Writer: &tt, Reader: &tt})
				continue
			}
			if o.Err != nil {
				if o.NotFound {
					c.Count("kept_apart_reads", 1)
					c.Distinct("nontrivial", pass, x.b.Name, ref.TypName(t.Typ), "kept-apart")
				} else {
					c.Count("foreign_reads_failing_otherwise", 1)
				}
				continue
			}
			j, ok := idx(o.Val)
			if !ok {
				c.Fail("other-unknown-data-returned@"+x.b.Name, fmt.Sprintf("pass %s: Get %s returns %q which nobody wrote", pass, t, o.Val), c11Witness{Kind: "read", Backend: x.b.Name, Sig: "other-unknown-data-returned@" + x.b.Name, Writer: &t, Reader: &t})
				continue
			}
			confirm(pass, "read", x.b, u[j], t, fmt.Sprintf("pass %s on %s: Get %s returned the value written to %s", pass, x.b.Name, t, u[j]))
		}
	}
	listOthers := func(pass string, x *c11Handle, typs []uint8, sess []string, skip func(uint8, string) bool) {
		if !x.b.HasDump && x.b.Kind != "pg" {
			return
		}
		for _, typ := range typs {
			for _, s := range sess {
				if skip(typ, s) {
					continue
				}
				o := x.list(typ, s)
				if o.Panic != "" {
					tt := c11Triple{typ, ref.Bs(s), "a"}
					c.Fail("panic-dump@"+x.b.Name, fmt.Sprintf("Dump under %s/%q panicked: %s", ref.TypName(typ), s, o.Panic), c11Witness{Kind: "list", Backend: x.b.Name, Sig: "panic-dump@" + x.b.Name, Writer: &tt, Reader: &tt})
					continue
				}
				if o.Err != nil || len(o.List) == 0 {
					c.Count("kept_apart_listings", 1)
					continue
				}
				seenW := map[int]bool{}
				for _, p := range o.List {
					j, ok := idx([]byte(p.V))
					if !ok || seenW[j] {
						continue
					}
					seenW[j] = true
					confirm(pass, "list", x.b, u[j], c11Triple{typ, ref.Bs(s), "a"}, fmt.Sprintf("pass %s on %s: Dump under %s session %q listed %q holding the value written to %s", pass, x.b.Name, ref.TypName(typ), s, p.K, u[j]))
				}
			}
		}
	}
	sessTypes := []uint8{ref.TState, ref.TUserData}

	// ---- pass A
	for _, b := range backends {
		if !c.Mine() {
			continue
		}
		x, err := c11Open(b)
		if err != nil {
			c.Fail("open-fails@"+b.Name, err.Error(), c11Witness{Kind: "read", Backend: b.Name, Sig: "open-fails@" + b.Name})
			continue
		}
		refused := make([]bool, len(u))
		cur = c11Witness{Pass: "A"}
		n := writeAll(x, func(c11Triple) bool { return true }, refused)
		c.Count("accepted_entries_"+b.Name, int64(n))
		c.Distinct("states", "A", b.Name)
		for i, t := range u {
			if refused[i] {
				continue
			}
			o := x.get(t)
			if o.Panic != "" {
				tt := t
				c.Fail("panic-get@"+b.Name, fmt.Sprintf("Get %s panicked: %s", t, o.Panic), c11Witness{Kind: "read", Backend: b.Name, Sig: "panic-get@" + b.Name, Writer: &tt, Reader: &tt})
				continue
			}
			if o.Err != nil {
				tt := t
				c.Fail("other-written-entry-lost@"+b.Name, fmt.Sprintf("pass A on %s: %s was written (accepted) but Get fails: %v", b.Name, t, o.Err), c11Witness{Kind: "overwrite", Backend: b.Name, Sig: "other-written-entry-lost@" + b.Name, Writer: &tt, Reader: &tt})
				continue
			}
			if string(o.Val) == val(i) {
				c.Count("own_value_reads", 1)
				outcome("A", b, t, t, "own")
				continue
			}
			j, ok := idx(o.Val)
			if !ok {
				tt := t
				c.Fail("other-unknown-data-returned@"+b.Name, fmt.Sprintf("pass A: Get %s returns %q", t, o.Val), c11Witness{Kind: "read", Backend: b.Name, Sig: "other-unknown-data-returned@" + b.Name, Writer: &tt, Reader: &tt})
				continue
			}
			confirm("A", "overwrite", b, u[j], t, fmt.Sprintf("pass A on %s: %s reads the value written to %s", b.Name, t, u[j]))
		}
		c.Count("evaluations", 1)
		c.Count("transitions", int64(x.steps))
		x.close()
	}
	if c.TimeUp() {
		return
	}

	// ---- pass B: per session
	for _, b := range backends {
		for _, s := range sessions {
			if !c.Mine() {
				continue
			}
			x, err := c11Open(b)
			if err != nil {
				continue
			}
			cur = c11Witness{Pass: "B", SelSess: ref.Bs(s)}
			mine := func(t c11Triple) bool { return ref.Sessioned(t.Typ) && string(t.Sess) == s }
			skipT := func(t c11Triple) bool { return !ref.Sessioned(t.Typ) || string(t.Sess) == s }
			refused := make([]bool, len(u))
			if writeAll(x, mine, refused) > 0 {
				c.Distinct("states", "B", b.Name, s)
				readOthers("B", x, skipT)
				listOthers("B", x, sessTypes, sessions, func(_ uint8, s2 string) bool { return s2 == s })
			}
			c.Count("evaluations", 1)
			c.Count("transitions", int64(x.steps))
			x.close()
			if c.TimeUp() {
				return
			}
		}
	}

	// ---- pass C: per data type
	for _, b := range backends {
		for _, typ := range c11Types {
			if !c.Mine() {
				continue
			}
			x, err := c11Open(b)
			if err != nil {
				continue
			}
			cur = c11Witness{Pass: "C", SelTyp: typ}
			mine := func(t c11Triple) bool { return t.Typ == typ }
			refused := make([]bool, len(u))
			if writeAll(x, mine, refused) > 0 {
				c.Distinct("states", "C", b.Name, ref.TypName(typ))
				readOthers("C", x, mine)
				listOthers("C", x, sessTypes, sessions, func(t2 uint8, _ string) bool { return t2 == typ })
			}
			c.Count("evaluations", 1)
			c.Count("transitions", int64(x.steps))
			x.close()
			if c.TimeUp() {
				return
			}
		}
	}

	// ---- pass D: interleavings around every suspected collision shape
	classes := c11Shapes(backends, u)
	c.Note("passD_shapes", fmt.Sprint(len(classes)))
	for ci, cl := range classes {
		n := len(cl.Triples) * 2
		for _, b := range backends {
			for first := 0; first < n; first++ {
				if !c.Mine() {
					continue
				}
				seq := []int{first}
				var rec func()
				rec = func() {
					if len(seq) == depth {
						viols, steps := c11Interleave(b, cl.Triples, seq, func(content string) { c.Distinct("states", "D", b.Name, strconv.Itoa(ci), content) })
						c.Count("evaluations", 1)
						c.Count("interleavings", 1)
						c.Count("transitions", int64(steps))
						if len(viols) == 0 {
							c.Count("interleavings_kept_apart", 1)
						}
						for _, v := range viols {
							c.Distinct("nontrivial", "D", b.Name, v.Sig)
							c.Fail(v.Sig, v.Msg, c11Witness{Kind: "interleaving", Backend: b.Name, Sig: v.Sig, Triples: cl.Triples, Seq: append([]int(nil), seq...)})
						}
						return
					}
					for l := 0; l < n; l++ {
						seq = append(seq, l)
						rec()
						seq = seq[:len(seq)-1]
					}
				}
				rec()
				if c.TimeUp() {
					return
				}
			}
		}
		if ci%17 == 0 {
			c.Sample(map[string]any{"pass": "D", "shape": cl.Shape, "entries": fmt.Sprint(cl.Triples)})
		}
	}
	c.Sample(map[string]any{"universe": len(u), "sessions": len(sessions), "keys": len(keys)})
	c11ExtraPasses(c)
}
