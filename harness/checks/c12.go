//go:build overlay

package checks

import (
	"context"
	"encoding/json"
	"fmt"
	"os"
	"path/filepath"
	"sort"
	"strings"

	"git.defalsify.org/vise.git/db"
	fsdb "git.defalsify.org/vise.git/db/fs"
	"git.defalsify.org/vise.git/engine"
	"git.defalsify.org/vise.git/persist"
	"git.defalsify.org/vise.git/resource"
	"git.defalsify.org/vise.git/verifshim/vos"

	"verif/app"
	"verif/codec"
	"verif/mc"
)

// C12 — saving session state to the filesystem store is crash-atomic.
//
// Built only with the crash-point overlay (build tag "overlay"): db/fs is compiled against the vos
// shim instead of os / io/ioutil, so every mutating file operation of a save is a numbered crash point.

func init() {
	register(&mc.Check{
		ID:    "C12",
		Level: "fault_enumeration",
		Rule: "applications with growing session records x all input histories up to depth d; for the LAST request of each history (old record = state before it, or absent for a new session; new record = state after it) EVERY crash point of EVERY mutating file operation performed by the whole request (Exec..Finish) is enumerated: death before the operation, after it, and - for each write of n bytes - after every prefix of 1..n-1 bytes; process death = panic with a sentinel inside the os shim, all engine/persister/store objects discarded; in addition every operation is answered once with an I/O error (refused; writes also as short writes of 1, n/2, n-1 bytes) after which the request runs to its end; and for every history the next start's read of the record fails once; " +
			"oracle with fresh objects on the same directory: the neighbour session's record is byte-identical and no foreign file appears, the session's record decodes to the old state or to a state a completed save of that request wrote (never empty/truncated/undecodable), and the next request of a fresh engine answers exactly as the crash-free run does from that state; distinct = (app, history, operation kind, when) classes; non-trivial = crash points inside a write or between two operations of one save",
		Assumptions: []string{"process death leaves completed writes intact (power loss / dropped unsynced blocks is outside the statement)", "the shim covers the os/ioutil functions listed in _shimsrc/vos; a tree that needs others fails to build (exit 2)", "leftover temporary files whose names start with '.' are tolerated"},
		Run:         c12Run,
		Replay:      c12Replay,
		MinItems:    10,
	})
}

type c12Witness struct {
	Flushing bool        `json:"flushing_persister_and_retried_finish,omitempty"`
	App      int         `json:"app"`
	Inputs   []string    `json:"inputs"` // the crash happens during the last one
	Point    vos.Point   `json:"crash_point"`
	Ops      []vos.OpRec `json:"operations_of_the_request,omitempty"`
}

func c12App(i int) *app.App {
	if i == 3 {
		// consecutive records of EQUAL length that differ in two places (move counter and a reloaded value)
		a := app.New("toggle")
		a.Node("root", "root {{.tv}}", codec.Ins{Op: codec.LOAD, Sym: "tv", N: 8}, codec.Ins{Op: codec.RELOAD, Sym: "tv"}, codec.Ins{Op: codec.MAP, Sym: "tv"}, codec.Ins{Op: codec.HALT},
			codec.Ins{Op: codec.INCMP, Sym: ".", Sel: "1"}, codec.Ins{Op: codec.INCMP, Sym: ".", Sel: "0"})
		a.Node("_catch", "catch", codec.Ins{Op: codec.HALT}, codec.Ins{Op: codec.INCMP, Sym: "_", Sel: "*"})
		a.Func("tv", func(e *app.Env, sym string, in []byte, l string) (resource.Result, error) {
			if string(in) == "1" {
				return resource.Result{Content: "xxxxxx"}, nil
			}
			return resource.Result{Content: "yyyyyy"}, nil
		})
		a.WithInputs("1", "0", "zz")
		return a
	}
	a := app.New(fmt.Sprintf("grow-%d", i))
	sz := [][3]int{{4, 20, 60}, {30, 100, 250}, {1, 1, 400}}[i]
	mk := func(n int, ch string) app.Func { return constFunc(strings.Repeat(ch, n)) }
	a.Node("root", "root {{.r1}}", codec.Ins{Op: codec.LOAD, Sym: "r1", N: 500}, codec.Ins{Op: codec.MAP, Sym: "r1"}, codec.Ins{Op: codec.MOUT, Sym: "go", Sel: "1"}, codec.Ins{Op: codec.HALT},
		codec.Ins{Op: codec.INCMP, Sym: "aa", Sel: "1"}, codec.Ins{Op: codec.INCMP, Sym: ".", Sel: "5"})
	a.Node("aa", "aa {{.a1}}", codec.Ins{Op: codec.LOAD, Sym: "a1", N: 500}, codec.Ins{Op: codec.MAP, Sym: "a1"}, codec.Ins{Op: codec.MOUT, Sym: "go", Sel: "1"}, codec.Ins{Op: codec.MOUT, Sym: "back", Sel: "0"}, codec.Ins{Op: codec.HALT},
		codec.Ins{Op: codec.INCMP, Sym: "bb", Sel: "1"}, codec.Ins{Op: codec.INCMP, Sym: "_", Sel: "0"})
	a.Node("bb", "bb {{.b1}}", codec.Ins{Op: codec.LOAD, Sym: "b1", N: 500}, codec.Ins{Op: codec.MAP, Sym: "b1"}, codec.Ins{Op: codec.MOUT, Sym: "back", Sel: "0"}, codec.Ins{Op: codec.HALT},
		codec.Ins{Op: codec.INCMP, Sym: "_", Sel: "0"}, codec.Ins{Op: codec.INCMP, Sym: "^", Sel: "9"})
	a.Node("_catch", "catch", codec.Ins{Op: codec.HALT}, codec.Ins{Op: codec.INCMP, Sym: "_", Sel: "*"})
	a.Func("r1", mk(sz[0], "r")).Func("a1", mk(sz[1], "a")).Func("b1", mk(sz[2], "b"))
	a.WithInputs("1", "0", "zz")
	return a
}

// recDb records every value successfully Put (the states a completed save wrote).
type recDb struct {
	db.Db
	puts *[][]byte
}

func (r recDb) Put(ctx context.Context, k, v []byte) error {
	// recorded BEFORE the call: a process that dies inside Put after the new file is in place has
	// legitimately stored this (complete) value although Put never returned
	if r.puts != nil {
		*r.puts = append(*r.puts, append([]byte(nil), v...))
	}
	return r.Db.Put(ctx, k, v)
}

func c12Open(dir string, puts *[][]byte) func() db.Db {
	return func() db.Db {
		f := fsdb.NewFsDb()
		if err := f.Connect(context.Background(), dir); err != nil {
			panic(err)
		}
		return recDb{f, puts}
	}
}

// c12Flushing: the sessions are served with a persister that flushes after saving, and a Finish that
// fails is retried once (set per run; the crash-free reference runs do not depend on it).
var c12Flushing bool

func c12Session(a *app.App, dir, id string, puts *[][]byte) *app.Session {
	s := app.NewSession(a, engine.Config{SessionId: id}, app.Persisted)
	s.Open = c12Open(dir, puts)
	s.FinishOnError = true
	s.Flush, s.RetryFinish = c12Flushing, c12Flushing
	return s
}

func decodeKey(raw []byte) (string, error) {
	pe := persist.NewPersister(nil)
	if err := pe.Deserialize(raw); err != nil {
		return "", err
	}
	if pe.State == nil || pe.Memory == nil {
		return "", fmt.Errorf("record decodes to an empty persister")
	}
	return app.StateKey(pe.State, pe.Memory), nil
}

func recordPath(dir, id string) string {
	// db/fs names a record <type+0x30><session>.<key>; the persister stores under key = session id
	return filepath.Join(dir, string([]byte{db.DATATYPE_STATE + 0x30})+id+"."+id)
}

func listDir(dir string) []string {
	es, _ := os.ReadDir(dir)
	var l []string
	for _, e := range es {
		l = append(l, e.Name())
	}
	sort.Strings(l)
	return l
}

// c12Prepare builds the directory: neighbour session + session s1 after inputs[:k].
func c12Prepare(appi int, dir string, prefix []string) (s *app.Session, neighbour []byte) {
	a := c12App(appi)
	n := c12Session(a, dir, "n1", nil)
	n.Request([]byte(""))
	n.Request([]byte("1"))
	neighbour, _ = os.ReadFile(recordPath(dir, "n1"))
	s = c12Session(c12App(appi), dir, "s1", nil)
	for _, in := range prefix {
		s.Request([]byte(in))
	}
	return
}

// c12Reference serves inputs crash-free on a fresh directory and returns the client view of the last response.
func c12Reference(appi int, inputs []string) string {
	dir, _ := os.MkdirTemp(mc.Scratch(), "c12ref")
	defer os.RemoveAll(dir)
	s, _ := c12Prepare(appi, dir, nil)
	var r app.Resp
	for _, in := range inputs {
		r = s.Request([]byte(in))
	}
	return r.Client()
}

// c12Ops runs the last request crash-free and returns its operation log and the states its saves wrote.
func c12Ops(appi int, inputs []string) (ops []vos.OpRec, oldKey string, oldAbsent bool, putKeys []string) {
	dir, _ := os.MkdirTemp(mc.Scratch(), "c12ops")
	defer os.RemoveAll(dir)
	k := len(inputs) - 1
	s, _ := c12Prepare(appi, dir, inputs[:k])
	if raw, err := os.ReadFile(recordPath(dir, "s1")); err == nil {
		oldKey, _ = decodeKey(raw)
	} else {
		oldAbsent = true
	}
	var puts [][]byte
	s.Open = c12Open(dir, &puts)
	vos.Reset()
	vos.Active = true
	s.Request([]byte(inputs[k]))
	vos.Active = false
	ops = append(ops, vos.Log...)
	for _, p := range puts {
		if key, err := decodeKey(p); err == nil {
			putKeys = append(putKeys, key)
		}
	}
	return
}

func c12Crash(appi int, inputs []string, p vos.Point, refs map[string]string) (sig, msg string, reached bool) {
	dir, _ := os.MkdirTemp(mc.Scratch(), "c12run")
	defer os.RemoveAll(dir)
	k := len(inputs) - 1
	s, neighbour := c12Prepare(appi, dir, inputs[:k])
	var oldKey string
	oldAbsent := false
	if raw, err := os.ReadFile(recordPath(dir, "s1")); err == nil {
		oldKey, _ = decodeKey(raw)
	} else {
		oldAbsent = true
	}
	_, _, _, putKeys := c12Ops(appi, inputs)
	oldRaw, _ := os.ReadFile(recordPath(dir, "s1"))
	var attempts [][]byte
	s.Open = c12Open(dir, &attempts)
	vos.Reset()
	vos.Active = true
	vos.Arm(p)
	r := s.Request([]byte(inputs[k]))
	vos.Active = false
	fired := vos.Fired
	vos.Reset()
	where := fmt.Sprintf("app %d history %q, process dies %s operation %d (prefix %d)", appi, inputs, p.When, p.Op, p.Prefix)
	if _, ok := r.PanicVal.(vos.Crash); !ok {
		if r.Panic != "" {
			return "panic", "request panics: " + r.Panic, true
		}
		if !fired {
			return "", "", false // the armed point was not reached
		}
		// an I/O error instead of a death: the request went on to its end
		where = fmt.Sprintf("app %d history %q, operation %d fails with an I/O error (%s, prefix %d) and the request goes on (Finish: %q)", appi, inputs, p.Op, p.When, p.Prefix, r.FinishErr)
	}
	// (1) other sessions untouched
	nb, err := os.ReadFile(recordPath(dir, "n1"))
	if err != nil || string(nb) != string(neighbour) {
		return "neighbour-record-changed", fmt.Sprintf("%s: the other session's record changed (%v)", where, err), true
	}
	for _, f := range listDir(dir) {
		if f == filepath.Base(recordPath(dir, "n1")) || f == filepath.Base(recordPath(dir, "s1")) || strings.HasPrefix(f, ".") {
			continue
		}
		return "foreign-file-appeared", fmt.Sprintf("%s: unexpected file %q in the store directory", where, f), true
	}
	// (2) the record is complete: old, or a state a completed save wrote
	raw, err := os.ReadFile(recordPath(dir, "s1"))
	found := ""
	if err != nil {
		if !oldAbsent {
			return "record-lost", fmt.Sprintf("%s: the session's record is gone (%v)", where, err), true
		}
		found = "absent"
	} else {
		// byte-exact: the file is the old record or a complete value some save of this request handed to the store
		exact := !oldAbsent && string(raw) == string(oldRaw)
		for _, at := range attempts {
			if string(raw) == string(at) {
				exact = true
			}
		}
		key, derr := decodeKey(raw)
		if derr == nil && !exact {
			return "record-mixed-bytes", fmt.Sprintf("%s: the record (%d bytes) decodes, but its bytes are neither the old record (%d bytes) nor a complete value written by this request: old and new bytes are mixed", where, len(raw), len(oldRaw)), true
		}
		if derr != nil {
			sg := "record-truncated-or-undecodable"
			if len(raw) == 0 {
				sg = "record-empty"
			}
			return sg, fmt.Sprintf("%s: the session's record (%d bytes) does not decode: %v", where, len(raw), derr), true
		}
		ok := !oldAbsent && key == oldKey
		if ok {
			found = "old"
		}
		for i, pk := range putKeys {
			if key == pk {
				ok = true
				found = "new"
				if i < len(putKeys)-1 && key != putKeys[len(putKeys)-1] {
					found = "intermediate"
				}
			}
		}
		if !ok {
			return "record-mixed", fmt.Sprintf("%s: the record decodes to %s, which is neither the old state nor one written by a completed save", where, key), true
		}
	}
	// (3) a fresh engine continues from that state
	for _, x := range []string{"1", "0"} {
		var later [][]byte
		fresh := c12Session(c12App(appi), dir, "s1", &later)
		// the crashed process had its own environment; the fresh one must answer like the crash-free reference
		got := fresh.Request([]byte(x)).Client()
		if len(later) > 0 {
			// an undisturbed save after the crash must leave exactly what it wrote (no stale bytes from the dead process)
			if now, err := os.ReadFile(recordPath(dir, "s1")); err != nil || string(now) != string(later[len(later)-1]) {
				return "later-save-mixed-with-stale-bytes", fmt.Sprintf("%s: after the next (undisturbed) request %q the record is %d bytes, the save wrote %d bytes (%v)", where, x, len(now), len(later[len(later)-1]), err), true
			}
		}
		var want []string
		switch found {
		case "old":
			want = []string{refs["old:"+x]}
		case "new":
			want = []string{refs["new:"+x]}
		default: // absent or the initial record of a brand-new session: the session starts
			want = []string{refs["old:"+x], refs["start:"+x]}
		}
		okk := false
		for _, w := range want {
			if got == w {
				okk = true
			}
		}
		if !okk {
			return "continues-from-wrong-state", fmt.Sprintf("%s: record holds the %s state; next input %q answers %s, crash-free reference %v", where, found, x, got, want), true
		}
		// put the record back for the second probe
		if raw != nil {
			os.WriteFile(recordPath(dir, "s1"), raw, 0o600)
		} else {
			os.Remove(recordPath(dir, "s1"))
		}
	}
	return "", "", true
}

// c12ReadFault: the session exists; the next start cannot read its record (one transient I/O error). The
// request must report an error and leave the record alone - not start a new session over it - and the
// request after that, undisturbed, continues the session.
func c12ReadFault(appi int, inputs []string) (sig, msg string) {
	dir, _ := os.MkdirTemp(mc.Scratch(), "c12rd")
	defer os.RemoveAll(dir)
	c12Prepare(appi, dir, inputs)
	rec := recordPath(dir, "s1")
	before, err := os.ReadFile(rec)
	if err != nil {
		return "", ""
	}
	where := fmt.Sprintf("app %d history %q, then a request whose read of the session record fails once with an I/O error", appi, inputs)
	fired := false
	vos.FailRead = func(name string) error {
		if !fired && filepath.Base(name) == filepath.Base(rec) {
			fired = true
			return fmt.Errorf("input/output error")
		}
		return nil
	}
	fresh := c12Session(c12App(appi), dir, "s1", nil)
	r := fresh.Request([]byte("1"))
	vos.FailRead = nil
	if !fired {
		return "", ""
	}
	if r.Panic != "" {
		return "panic", where + ": panic " + r.Panic
	}
	after, err := os.ReadFile(rec)
	if err != nil || string(after) != string(before) {
		k1, _ := decodeKey(before)
		k2, _ := decodeKey(after)
		return "read-error-overwrites-session", fmt.Sprintf("%s: the request answered %s and the stored record changed from %s to %s (%v)", where, r.Client(), k1, k2, err)
	}
	if r.ExecErr == "" {
		return "read-error-not-reported", fmt.Sprintf("%s: the request reports no error (%s)", where, r.Client())
	}
	want := c12Reference(appi, append(append([]string{}, inputs...), "1"))
	again := c12Session(c12App(appi), dir, "s1", nil)
	if got := again.Request([]byte("1")).Client(); got != want {
		return "continues-from-wrong-state", fmt.Sprintf("%s: the next, undisturbed request answers %s, reference %s", where, got, want)
	}
	return "", ""
}

func c12Refs(appi int, inputs []string) map[string]string {
	k := len(inputs) - 1
	refs := map[string]string{}
	for _, x := range []string{"1", "0"} {
		refs["old:"+x] = c12Reference(appi, append(append([]string{}, inputs[:k]...), x))
		refs["new:"+x] = c12Reference(appi, append(append([]string{}, inputs...), x))
		refs["start:"+x] = c12Reference(appi, []string{x})
	}
	return refs
}

func c12Replay(w json.RawMessage) (string, string) {
	var wit c12Witness
	if err := json.Unmarshal(w, &wit); err != nil {
		return "bad-witness", err.Error()
	}
	c12Flushing = wit.Flushing
	defer func() { c12Flushing = false }()
	if wit.Point.When == "read-fault" {
		return c12ReadFault(wit.App, wit.Inputs)
	}
	s, m, _ := c12Crash(wit.App, wit.Inputs, wit.Point, c12Refs(wit.App, wit.Inputs))
	return s, m
}

func c12Run(c *mc.Ctx) {
	depth := 2
	if c.Thorough() {
		depth = 3
	}
	c.Note("history_depth", fmt.Sprint(depth))
	for appi := 0; appi < 4; appi++ {
		a := c12App(appi)
		for d := 0; d <= depth; d++ {
			histories(a.Inputs, d, func(rest []string) {
				inputs := append([]string{""}, rest...)
				if c.Mine() {
					sig, msg := c12ReadFault(appi, inputs)
					c.Count("evaluations", 1)
					c.Count("read_fault_cases", 1)
					if sig != "" {
						c.Fail(sig, msg, c12Witness{App: appi, Inputs: inputs, Point: vos.Point{When: "read-fault"}})
					}
				}
				ops, _, oldAbsent, putKeys := c12Ops(appi, inputs)
				if len(ops) == 0 {
					return
				}
				var refs map[string]string
				// work items: one per operation of the request
				for oi, op := range ops {
					if !c.Mine() {
						continue
					}
					if refs == nil {
						refs = c12Refs(appi, inputs)
					}
					pts := []vos.Point{{Op: oi, When: "before"}, {Op: oi, When: "after"}}
					if op.Kind == "write" {
						for pf := 1; pf < op.N; pf++ {
							pts = append(pts, vos.Point{Op: oi, When: "partial", Prefix: pf})
						}
					}
					// the same operation answered with an I/O error instead (the process lives on): refused
					// outright, and for a write also as a short write of 1, n/2 and n-1 bytes
					pts = append(pts, vos.Point{Op: oi, When: "fail"})
					if op.Kind == "write" && op.N > 1 {
						for _, pf := range []int{1, op.N / 2, op.N - 1} {
							pts = append(pts, vos.Point{Op: oi, When: "fail-partial", Prefix: pf})
						}
					}
					for _, p := range pts {
						if strings.HasPrefix(p.When, "fail") {
							// the same I/O error with a flushing persister and a client that retries a failed Finish
							c12Flushing = true
							sig, msg, reached := c12Crash(appi, inputs, p, refs)
							c12Flushing = false
							c.Count("evaluations", 1)
							if reached {
								c.Count("io_error_points_with_retried_finish", 1)
								if sig != "" {
									c.Fail(sig, msg, c12Witness{App: appi, Inputs: inputs, Point: p, Ops: ops, Flushing: true})
								}
							}
						}
						sig, msg, reached := c12Crash(appi, inputs, p, refs)
						c.Count("evaluations", 1)
						if !reached {
							c.Count("crash_points_not_reached", 1)
							continue
						}
						c.Count("transitions", int64(len(inputs)+3))
						c.Distinct("nontrivial", fmt.Sprint(appi), fmt.Sprint(len(inputs)), op.Kind, p.When, fmt.Sprint(oldAbsent))
						c.Count("crash_points_"+p.When, 1)
						if sig != "" {
							c.Fail(sig, msg, c12Witness{App: appi, Inputs: inputs, Point: p, Ops: ops})
						}
					}
				}
				if appi == 1 && len(inputs) == 2 && inputs[1] == "1" {
					c.Sample(map[string]any{"app": a.Describe(), "inputs": inputs, "operations_of_last_request": ops, "completed_saves": len(putKeys), "old_record_absent": oldAbsent})
				}
			})
			if c.TimeUp() {
				return
			}
		}
	}
}
