package checks

import (
	"context"
	"encoding/json"
	"fmt"
	"strings"

	"git.defalsify.org/vise.git/cache"
	"git.defalsify.org/vise.git/engine"
	"git.defalsify.org/vise.git/resource"
	"git.defalsify.org/vise.git/state"

	"verif/app"
	"verif/codec"
	"verif/mc"
)

// C08 — no input history crashes the engine or corrupts a session.

func init() {
	register(&mc.Check{
		ID:    "C08",
		Level: "model_checking",
		Rule: "corpus = collision applications of all other checks + the repository's examples (read from the current tree by the harness's own assembly reader, external functions replaced by input-determined stubs) + generated families, all passing the static well-formedness checker; input alphabet per application = its selectors + junk {'', zz, 0, NUL, invalid UTF-8, 1<nl>1, ' 1', *, +1, {{, 1{{.x}}, 255 x a, 256 x a, 300 x 9}; " +
			"(A) explicit-state BFS of the persisted-mode session graph (state = canonical decoded snapshot + environment state; successor = fresh store + replay of the shortest history + one request) up to a state/depth cap, every input tried from every reached state; (B) all long-lived histories up to depth d; (C) directed long histories (130 descents, 300 next/previous, 70000-byte result); " +
			"oracle on every request: no panic, instruction budget not exceeded, one cache scope per navigation level, used size = sum of value lengths, every live symbol has a limit, the stored snapshot decodes and re-encodes to the same state, the next request is accepted; states = distinct canonical session states; non-trivial = states at depth>=2 or with >=1 cached symbol",
		Assumptions: []string{"external-function answers are input-determined (echo under a declared size, saturating counters, constants)", "state graphs larger than the cap are explored breadth-first up to the cap and reported as not exhaustive", "the random continuation named in the quantifier is a different family and is not used"},
		Run:         c08Run,
		Replay:      c08Replay,
		MinItems:    100,
	})
}

var c08Junk = []string{"", "zz", "0", "\x00", "\xff\xfe\x80", "a\xff\xfe", "1\n1", " 1", "*", "+1", "{{", "1{{.x}}", strings.Repeat("a", 255), strings.Repeat("a", 256), strings.Repeat("9", 300)}
var c08JunkExpand = []string{"", "zz", "\x00", strings.Repeat("a", 255)} // junk whose successors are expanded further

type c08Witness struct {
	App    string `json:"app"`
	Cfg    int    `json:"config_variant"`
	Mode   string `json:"mode"`
	Inputs qstrs  `json:"inputs"`
	Kind   string `json:"kind,omitempty"` // directed scenario name
}

// c08Invariants checks the session's internal consistency after a request.
func c08Invariants(st *state.State, ca *cache.Cache) (string, string) {
	if st == nil || ca == nil {
		return "", ""
	}
	if len(st.Code) == 0 && len(st.ExecPath) > 0 && !flagSet(st.Flags, 6) {
		return "session-left-without-code", fmt.Sprintf("the session is at %v, not terminated, but has no pending bytecode: it cannot be continued", st.ExecPath)
	}
	if int(ca.Levels()) != len(st.ExecPath)+1 {
		return "scope-count-differs-from-depth", fmt.Sprintf("cache has %d scopes, navigation path %v has %d levels", ca.Levels(), st.ExecPath, len(st.ExecPath))
	}
	var sum uint64
	for _, m := range ca.Cache {
		for k, v := range m {
			sum += uint64(len(v))
			if _, ok := ca.Sizes[k]; !ok {
				return "live-symbol-without-limit", fmt.Sprintf("symbol %s has no declared limit", k)
			}
		}
	}
	if sum != uint64(ca.CacheUseSize) {
		return "cache-accounting", fmt.Sprintf("used size %d, contents sum to %d", ca.CacheUseSize, sum)
	}
	if ca.CacheSize > 0 && sum > uint64(ca.CacheSize) {
		return "cache-capacity-exceeded", fmt.Sprintf("%d bytes cached, capacity %d", sum, ca.CacheSize)
	}
	return "", ""
}

func c08Session(ap corpusApp, cfgi int, mode string) *app.Session {
	return newSess(ap.Build(), mode, ap.Cfgs[cfgi])
}

// c08Step serves one request and checks the oracle. Returns the canonical state key.
func c08Step(s *app.Session, in string, mode string) (sig, msg, key string) {
	r := s.Request([]byte(in))
	if r.Panic != "" {
		sg := "panic"
		switch {
		case strings.Contains(r.Panic, "maxlevel"):
			sg = "panic-maxlevel"
		case strings.Contains(r.Panic, "down into same node"):
			sg = "panic-down-into-same-node"
		case strings.Contains(r.Panic, "slice bounds") || strings.Contains(r.Panic, "index out of range"):
			sg = "panic-bounds"
		}
		return sg, fmt.Sprintf("input %q: panic: %s", short(in), r.Panic), ""
	}
	if r.Budget {
		return "nontermination", fmt.Sprintf("input %q: more than %d instructions in one request", short(in), app.StepBudget), ""
	}
	if sg, m := c08Invariants(s.St, s.Ca); sg != "" {
		return sg, fmt.Sprintf("after input %q: %s", short(in), m), ""
	}
	if mode == "persisted" {
		if r.FinishErr != "" && r.FinishErr != "-" {
			return "session-cannot-be-saved", fmt.Sprintf("after input %q: Finish fails: %s", short(in), r.FinishErr), ""
		}
		st, ca, _, err := s.Snapshot()
		if err != nil {
			if s.St == nil {
				return "", "", "nosession"
			}
			return "session-cannot-be-loaded", fmt.Sprintf("after input %q: stored session unreadable: %v", short(in), err), ""
		}
		key = app.StateKey(st, ca)
		// (a request that fails inside the engine's initialisation - a failing first function - is not saved: the stored
		// record is the one of the previous request, and there is nothing to compare it with)
		if s.St != nil && key != app.StateKey(s.St, s.Ca) && r.FinishErr == "" && !(s.First != nil && r.ExecErr != "") {
			return "snapshot-differs-from-session", fmt.Sprintf("after input %q: stored %s, in memory %s", short(in), key, app.StateKey(s.St, s.Ca)), ""
		}
		if sg, m := c08Invariants(st, ca); sg != "" {
			return sg + "-stored", fmt.Sprintf("after input %q (stored snapshot): %s", short(in), m), ""
		}
		key += " || env " + s.Env.StateKey()
	} else {
		key = app.StateKey(s.St, s.Ca) + " || env " + s.Env.StateKey()
	}
	return "", "", key
}

func c08ReplayHistory(ap corpusApp, cfgi int, mode string, inputs []string) (sig, msg, key string) {
	s := c08Session(ap, cfgi, mode)
	for k, in := range inputs {
		sig, msg, key = c08Step(s, in, mode)
		if sig != "" {
			return sig, fmt.Sprintf("%s cfg %d %s request %d of %q: %s", ap.Name, cfgi, mode, k, shortList(inputs[:k+1]), msg), ""
		}
	}
	return "", "", key
}

func shortList(l []string) []string {
	o := make([]string, len(l))
	for i, s := range l {
		o[i] = short(s)
		if len(s) > 40 {
			o[i] = fmt.Sprintf("%s..(%d bytes)", s[:4], len(s))
		}
	}
	return o
}

func c08Replay(w json.RawMessage) (string, string) {
	var wit c08Witness
	if err := json.Unmarshal(w, &wit); err != nil {
		return "bad-witness", err.Error()
	}
	if wit.Kind != "" {
		return c08Directed(wit.Kind)
	}
	ap, ok := corpusByName(wit.App)
	if !ok {
		return "bad-witness", "unknown app " + wit.App
	}
	s, m, _ := c08ReplayHistory(ap, wit.Cfg, wit.Mode, wit.Inputs)
	return s, m
}

// directed long histories
func c08Directed(kind string) (string, string) {
	switch kind {
	case "descents-130", "descents-130-first", "descents-130-loadfail":
		a := app.New("deep")
		// -first: the engine has a first function; -loadfail: an external function has failed earlier in the session
		a.First = kind == "descents-130-first"
		a.Node("root", "root", codec.Ins{Op: codec.HALT}, codec.Ins{Op: codec.INCMP, Sym: "aa", Sel: "1"}, codec.Ins{Op: codec.INCMP, Sym: "ee", Sel: "2"})
		a.Node("ee", "ee", codec.Ins{Op: codec.LOAD, Sym: "bad", N: 0}, codec.Ins{Op: codec.HALT}, codec.Ins{Op: codec.INCMP, Sym: "_", Sel: "0"})
		a.Func("bad", func(e *app.Env, sym string, in []byte, l string) (resource.Result, error) {
			return resource.Result{}, fmt.Errorf("backend down")
		})
		a.Node("aa", "aa", codec.Ins{Op: codec.HALT}, codec.Ins{Op: codec.INCMP, Sym: "bb", Sel: "1"}, codec.Ins{Op: codec.INCMP, Sym: "_", Sel: "0"})
		a.Node("bb", "bb", codec.Ins{Op: codec.HALT}, codec.Ins{Op: codec.INCMP, Sym: "aa", Sel: "1"}, codec.Ins{Op: codec.INCMP, Sym: "_", Sel: "0"})
		a.Node("_catch", "catch", codec.Ins{Op: codec.HALT}, codec.Ins{Op: codec.INCMP, Sym: "_", Sel: "*"})
		for _, mode := range []string{"long-lived", "persisted"} {
			s := newSess(a, mode, engine.Config{})
			ins := []string{""}
			if kind == "descents-130-loadfail" {
				ins = append(ins, "2", "0", "0")
			}
			for i := 0; i < 135; i++ {
				ins = append(ins, "1")
			}
			// at the deepest point: input nobody handles, then the way back up
			ins = append(ins, "zz", "0", "zz")
			for i := 0; i < 140; i++ {
				ins = append(ins, "0")
			}
			for k, in := range ins {
				if sig, msg, _ := c08Step(s, in, mode); sig != "" {
					return sig, fmt.Sprintf("%s (%s): 135 descents through a 2-cycle then ascents, request %d: %s", mode, kind, k, msg)
				}
			}
		}
	case "unblocked-by-client":
		// sessions that terminated (out of code without HALT at depth 0..2, or a function that sets TERMINATE), one
		// blocked request, then client code clears TERMINATE in the stored session: it must serve requests again
		for depth := 0; depth <= 2; depth++ {
			for _, kind := range []string{"A0", "A1", "F0"} {
				a := c20App(c20Spec{depth, kind, false})
				s := newSess(a, "persisted", engine.Config{})
				ins := []string{""}
				for i := 0; i < depth; i++ {
					ins = append(ins, "1")
				}
				ins = append(ins, "1", "1", "0")
				for k, in := range ins {
					if sig, msg, _ := c08Step(s, in, "persisted"); sig != "" {
						return sig, fmt.Sprintf("ends app depth %d kind %s, request %d: %s", depth, kind, k, msg)
					}
				}
				if st, _, _, err := s.Snapshot(); err != nil || !flagSet(st.Flags, 6) {
					continue // this one did not end up blocked: nothing to ask
				}
				if err := s.ClearTerminate(); err != nil {
					return "client-cannot-unblock", fmt.Sprintf("ends app depth %d kind %s: clearing TERMINATE in the stored session fails: %v", depth, kind, err)
				}
				for k, in := range []string{"", "1", "0", "1"} {
					if sig, msg, _ := c08Step(s, in, "persisted"); sig != "" {
						return sig + "-after-client-cleared-terminate", fmt.Sprintf("ends app depth %d kind %s, request %d after client code cleared TERMINATE: %s", depth, kind, k, msg)
					}
				}
			}
		}
	case "first-function-fails":
		// the engine's first function (WithFirst) fails on one request of the session - a lookup that is down for a
		// moment - and works again afterwards: the request may fail, the session must stay usable
		a := app.New("firstfails")
		a.Node("root", "root", codec.Ins{Op: codec.HALT}, codec.Ins{Op: codec.INCMP, Sym: "aa", Sel: "1"})
		a.Node("aa", "aa", codec.Ins{Op: codec.HALT}, codec.Ins{Op: codec.INCMP, Sym: "bb", Sel: "1"}, codec.Ins{Op: codec.INCMP, Sym: "_", Sel: "0"})
		a.Node("bb", "bb", codec.Ins{Op: codec.HALT}, codec.Ins{Op: codec.INCMP, Sym: "_", Sel: "0"})
		a.Node("_catch", "catch", codec.Ins{Op: codec.HALT}, codec.Ins{Op: codec.INCMP, Sym: "_", Sel: "*"})
		for _, mode := range []string{"persisted", "long-lived"} {
			for failAt := 0; failAt < 5; failAt++ {
				s := newSess(a, mode, engine.Config{})
				n := 0
				s.First = func(ctx context.Context, sym string, input []byte) (resource.Result, error) {
					n++
					if n-1 == failAt {
						return resource.Result{}, fmt.Errorf("lookup failed")
					}
					return resource.Result{}, nil
				}
				for k, in := range []string{"", "1", "1", "0", "zz", "0", "1"} {
					if sig, msg, _ := c08Step(s, in, mode); sig != "" {
						return sig + "-after-failed-first-function", fmt.Sprintf("%s, first function fails on its call %d, request %d: %s", mode, failAt, k, msg)
					}
				}
			}
		}
	case "browse-300":
		g := c02Cfg{Rows: []string{"aaa", "bbb", "ccc", "ddd"}, Tpl: 0, Next: true, Prev: true, Size: 14}
		a := c02App(g)
		for _, mode := range []string{"long-lived", "persisted"} {
			s := newSess(a, mode, engine.Config{OutputSize: g.Size})
			if sig, msg, _ := c08Step(s, "", mode); sig != "" {
				return sig, msg
			}
			for i := 0; i < 300; i++ {
				in := "11"
				if i%2 == 1 {
					in = "22"
				}
				if sig, msg, _ := c08Step(s, in, mode); sig != "" {
					return sig, fmt.Sprintf("%s: alternating next/previous, request %d: %s", mode, i, msg)
				}
			}
			for i := 0; i < 40; i++ {
				in := "11"
				if i%7 == 6 {
					in = "0"
				}
				if sig, msg, _ := c08Step(s, in, mode); sig != "" {
					return sig, fmt.Sprintf("%s: next far beyond the end, request %d: %s", mode, i, msg)
				}
			}
		}
	case "result-70000":
		a := app.New("big")
		a.Node("root", "root {{.big}}", codec.Ins{Op: codec.LOAD, Sym: "big", N: 0}, codec.Ins{Op: codec.MAP, Sym: "big"}, codec.Ins{Op: codec.HALT}, codec.Ins{Op: codec.INCMP, Sym: "aa", Sel: "1"})
		a.Node("aa", "aa {{.lim}}", codec.Ins{Op: codec.LOAD, Sym: "lim", N: 100}, codec.Ins{Op: codec.MAP, Sym: "lim"}, codec.Ins{Op: codec.HALT}, codec.Ins{Op: codec.INCMP, Sym: "_", Sel: "0"})
		a.Node("_catch", "catch", codec.Ins{Op: codec.HALT}, codec.Ins{Op: codec.INCMP, Sym: "_", Sel: "*"})
		big := strings.Repeat("x", 70000)
		a.Func("big", constFunc(big)).Func("lim", func(e *app.Env, sym string, in []byte, l string) (resource.Result, error) {
			return resource.Result{Content: strings.Repeat("y", 65536+50)}, nil
		})
		for _, mode := range []string{"long-lived", "persisted"} {
			for _, cfg := range []engine.Config{{}, {OutputSize: 100}, {CacheSize: 1000}} {
				s := newSess(a, mode, cfg)
				for k, in := range []string{"", "1", "0", "1", "zz"} {
					if sig, msg, _ := c08Step(s, in, mode); sig != "" {
						return sig, fmt.Sprintf("%s %+v: 70000-byte results, request %d: %s", mode, cfg, k, msg)
					}
				}
			}
		}
	}
	return "", ""
}

func c08Run(c *mc.Ctx) {
	maxStates, maxDepth, llDepth := 400, 7, 3
	if c.Thorough() {
		maxStates, maxDepth, llDepth = 4000, 12, 4
	}
	c.Note("bfs_state_cap_per_app_config", fmt.Sprint(maxStates))
	c.Note("bfs_depth_cap", fmt.Sprint(maxDepth))
	c.Note("long_lived_history_depth", fmt.Sprint(llDepth))
	apps := corpus()
	c.Note("corpus_apps", fmt.Sprint(len(apps)))
	c.Note("corpus_skipped_ill_formed", strings.Join(corpusSkipped, " | "))
	for _, kind := range []string{"descents-130", "descents-130-first", "descents-130-loadfail", "unblocked-by-client", "first-function-fails", "browse-300", "result-70000"} {
		if !c.Mine() {
			continue
		}
		c.Count("evaluations", 1)
		if sig, msg := c08Directed(kind); sig != "" {
			c.Fail(sig, msg, c08Witness{Kind: kind})
		}
	}
	capped := 0
	for _, ap := range apps {
		for cfgi := range ap.Cfgs {
			// (A) persisted BFS
			if c.Mine() {
				alpha := append(append([]string{}, ap.Inputs...), c08Junk...)
				expand := map[string]bool{}
				for _, in := range ap.Inputs {
					expand[in] = true
				}
				for _, in := range c08JunkExpand {
					expand[in] = true
				}
				type node struct{ hist []string }
				_, _, k0 := c08ReplayHistory(ap, cfgi, "persisted", nil)
				seen := map[string]bool{k0: true}
				front := []node{{nil}}
				truncated := false
				for len(front) > 0 {
					n := front[0]
					front = front[1:]
					if len(n.hist) >= maxDepth {
						truncated = true
						continue
					}
					for _, in := range alpha {
						h := append(append([]string(nil), n.hist...), in)
						sig, msg, key := c08ReplayHistory(ap, cfgi, "persisted", h)
						c.Count("transitions", int64(len(h)))
						c.Count("evaluations", 1)
						if sig != "" {
							c.Fail(sig, msg, c08Witness{App: ap.Name, Cfg: cfgi, Mode: "persisted", Inputs: h})
							continue
						}
						if !seen[key] {
							seen[key] = true
							c.Distinct("states", ap.Name, fmt.Sprint(cfgi), key)
							if strings.Contains(key, "/") || strings.Contains(key, "=\"") {
								c.Distinct("nontrivial", ap.Name, fmt.Sprint(cfgi), key)
							}
							if expand[in] {
								if len(seen) < maxStates {
									front = append(front, node{h})
								} else {
									truncated = true
								}
							}
						}
					}
					if c.TimeUp() {
						return
					}
				}
				if truncated {
					capped++
					c.Count("app_configs_capped_before_fixpoint", 1)
				} else {
					c.Count("app_configs_explored_to_fixpoint", 1)
				}
			}
			// (B) long-lived histories, sharded by first input
			alpha := append(append([]string{}, ap.Inputs...), c08Junk...)
			for _, first := range alpha {
				if !c.Mine() {
					continue
				}
				histories(alpha, llDepth-1, func(rest []string) {
					h := append([]string{"", first}, rest...)
					sig, msg, _ := c08ReplayHistory(ap, cfgi, "long-lived", h)
					c.Count("evaluations", 1)
					c.Count("transitions", int64(len(h)))
					if sig != "" {
						c.Fail(sig, msg, c08Witness{App: ap.Name, Cfg: cfgi, Mode: "long-lived", Inputs: h})
					}
				})
				if c.TimeUp() {
					return
				}
			}
		}
		if strings.HasPrefix(ap.Name, "example-p") {
			c.Sample(map[string]any{"app": ap.Name, "inputs": shortList(append(append([]string{}, ap.Inputs...), c08Junk...)), "program": ap.Build().Describe()})
		}
	}
}
