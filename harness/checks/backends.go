package checks

import (
	"git.defalsify.org/vise.git/db"

	"verif/pgfake"
)

func init() {
	// Postgres driver against the in-process transactional fake: one server per session store,
	// a new connection + pgDb handle per request.
	extraBackends["pg"] = func() func() db.Db {
		srv := pgfake.NewServer()
		return func() db.Db { return pgfake.Open(srv) }
	}
}
