package checks

import (
	"bytes"
	"context"
	"encoding/json"
	"fmt"
	"sort"
	"strings"

	"git.defalsify.org/vise.git/db"
	"git.defalsify.org/vise.git/lang"

	"verif/mc"
	"verif/pgfake"
)

// C13 — a storage error on Postgres never wedges the store or loses acknowledged writes.
//
// The real db/postgres backend is driven through postgres.NewPgDb().WithConnection(<pgfake.Conn>)
// against an in-process transactional fake of the pgx surface (package pgfake). Every client
// program (operation sequence) up to a length bound is executed once fault-free and then once for
// every single primitive driver call failing and for every pair of primitive driver calls failing.

func init() {
	register(&mc.Check{
		ID:    "C13",
		Level: "fault_enumeration",
		Rule: "all protocol-conformant client programs of length 1..d over {Put k1 a1, Put k1 a2, Put k2 b1, Get k1, Get k2, Get missing, Start, Stop, Abort, Dump k* drained, Dump k* first entry only (the two listings in the userdata variant)} followed by Close, run on the real Postgres backend over an in-process transactional fake of the pgx driver (fresh server + handle per run); " +
			"each program is run fault-free (counting its N primitive driver calls BeginTx/Exec/Query/Rows.Next/Rows.Scan/Commit/Rollback), then once per single failing call i in 1..N, then for every i once per second failing call j in i+1..N_i (N_i = calls made by the run with fault i); " +
			"the client is adaptive: after an error inside an explicit transaction its next step is Abort, program steps that are no longer applicable are skipped; oracle = transactional reference map + the fake's per-transaction begin/end log + reads through a second, fault-free handle on a fresh connection; " +
			"one evaluation = one (program, fault set) run; non-trivial = a run in which an injected fault fired and at least one later operation was compared with the reference, classed by (variant, primitive kind and operation kind of each fault, inside/outside explicit transaction)",
		Assumptions: []string{
			"the fake's failure semantics: a failed Exec/Query/Rows.Next aborts the transaction (later statements fail, Commit rolls back with ErrTxCommitRollback); a failed Commit or Rollback ends the transaction without applying its writes; a failed Scan closes the rows only; a failed BeginTx starts nothing",
			"client protocol: Start only without an open explicit transaction, Stop/Abort only with one, after any error (including not-found) inside an explicit transaction the next client step is Abort - or Stop, which may then fail but, if it reports success, makes the transaction's acknowledged writes visible; after Stop (failed or not) the explicit transaction is over",
			"a failed Rollback is not required to be reported (the statement lists begin, statement, row fetch, commit); Abort (no return value) and Close's return value are not constrained",
			"Dump (listing of the prefix both keys share; drained or left after the first entry, dumper closed): outside an explicit transaction it must list exactly the acknowledged writes in key order, report a failed begin or statement, end the transaction it began exactly once and leave later operations working; faults in fetches behind the first entry have no error channel and the commit of its read-only transaction need not be reported; inside an explicit transaction its result is not constrained (own snapshot or the caller's), but it must not end, commit or abort the caller's transaction (visibility through the second connection is checked after it, and after the Stop/Abort that follows)",
			"inside an explicit transaction reads see the transaction's own writes (Postgres semantics); writes of an explicit transaction still open at Close may or may not become visible (per key)",
			"redundant Commit/Rollback on an already ended transaction are not counted as a second end (pgx documents them as safe); statements on an ended transaction are",
			"strict connection model on: a statement/Commit/Rollback while a Rows of the same transaction is still open fails (pgx conn busy)",
			"language variant (prefix TEMPLATE, language nor, default-language value pre-seeded for k2): Put writes the translation; Get returns the translation if one was acknowledged, else the default-language value, else not-found (the lookup order shared by all go-vise backends)",
		},
		Run:      c13Run,
		Replay:   c13Replay,
		MinItems: 300,
	})
}

const (
	c13PutA = iota // Put k1 a1
	c13PutB        // Put k1 a2
	c13PutC        // Put k2 b1
	c13Get1
	c13Get2
	c13GetM
	c13Start
	c13Stop
	c13Abort
	c13Dump  // Dump "k", drained to the end, dumper closed (userdata variant only)
	c13Dump1 // Dump "k", first entry only, dumper closed
	c13NOps
	c13Close = c13NOps // not part of the alphabet: always last
)

var c13OpNames = []string{"Put k1 a1", "Put k1 a2", "Put k2 b1", "Get k1", "Get k2", "Get missing", "Start", "Stop", "Abort", "Dump k*", "Dump k* (first entry only)", "Close"}
var c13OpKind = []string{"put", "put", "put", "get", "get", "get", "start", "stop", "abort", "dump", "dump", "close"}

// c13HasOp: the listing is part of the alphabet of the userdata variant only (Dump drops the handle's language,
// which the language variant's reference does not model).
func c13HasOp(variant string, op int) bool {
	return variant == "userdata" || (op != c13Dump && op != c13Dump1)
}

// "userdata-core" (thorough tier) is the userdata variant over the core alphabet (no listing, Abort only inside an
// explicit transaction), which can be taken one operation deeper than the full alphabet.
var c13Keys = []string{"k1", "k2"}

func c13OpByName(n string) (int, bool) {
	for i, s := range c13OpNames[:c13NOps] {
		if s == n {
			return i, true
		}
	}
	return 0, false
}

func c13PutArgs(op int) (string, string) {
	switch op {
	case c13PutA:
		return "k1", "a1"
	case c13PutB:
		return "k1", "a2"
	}
	return "k2", "b1"
}

func c13GetKey(op int) string {
	switch op {
	case c13Get1:
		return "k1"
	case c13Get2:
		return "k2"
	}
	return "zz"
}

// c13Model is the transactional reference map together with the client's protocol state.
type c13Model struct {
	C     map[string]string // acknowledged (committed) writes
	P     map[string]string // writes of the open explicit transaction
	D     map[string]string // pre-seeded default-language values (language variant)
	inTx  bool              // client has an explicit transaction open
	txErr bool              // an operation in it returned an error: next client step is Abort
}

func newC13Model(variant string) *c13Model {
	m := &c13Model{C: map[string]string{}, P: map[string]string{}, D: map[string]string{}}
	if variant == "lang" {
		m.D["k2"] = "d2"
	}
	return m
}

// lookup is what a Get through the handle under test must return.
func (m *c13Model) lookup(k string) (string, bool) {
	if m.inTx {
		if v, ok := m.P[k]; ok {
			return v, true
		}
	}
	return m.committed(k)
}

// committed is what any other connection must see.
func (m *c13Model) committed(k string) (string, bool) {
	if v, ok := m.C[k]; ok {
		return v, true
	}
	v, ok := m.D[k]
	return v, ok
}

// applicable reports whether the client may issue op now.
func (m *c13Model) applicable(op int) bool {
	switch op {
	case c13Start:
		return !m.inTx
	case c13Stop:
		return m.inTx
	}
	return true // Abort without an explicit transaction is legal (and a no-op)
}

// apply advances the model by an operation whose outcome on the implementation was ok/not ok.
func (m *c13Model) apply(op int, ok bool) {
	switch op {
	case c13PutA, c13PutB, c13PutC:
		k, v := c13PutArgs(op)
		if !ok {
			if m.inTx {
				m.txErr = true
			}
			return
		}
		if m.inTx {
			m.P[k] = v
		} else {
			m.C[k] = v
		}
	case c13Get1, c13Get2, c13GetM, c13Dump, c13Dump1:
		if !ok && m.inTx {
			m.txErr = true
		}
	case c13Start:
		if ok {
			m.inTx, m.txErr = true, false
			m.P = map[string]string{}
		}
	case c13Stop:
		if ok {
			for k, v := range m.P {
				m.C[k] = v
			}
		}
		m.P = map[string]string{}
		m.inTx, m.txErr = false, false
	case c13Abort:
		m.P = map[string]string{}
		m.inTx, m.txErr = false, false
	}
}

// faultFreeOK is the reference outcome of op when nothing fails.
func (m *c13Model) faultFreeOK(op int) bool {
	switch op {
	case c13Get1, c13Get2, c13GetM:
		_, ok := m.lookup(c13GetKey(op))
		return ok
	case c13Dump, c13Dump1:
		// the listing runs in a transaction of its own: it sees what is committed
		return len(m.listing()) > 0
	}
	return true
}

// listing is what a Dump of the prefix "k" issued outside an explicit transaction must yield ("k1=a1,k2=b1").
func (m *c13Model) listing() string {
	var parts []string
	for _, k := range c13Keys {
		if v, ok := m.committed(k); ok {
			parts = append(parts, k+"="+v)
		}
	}
	return strings.Join(parts, ",")
}

type c13Witness struct {
	Variant string   `json:"variant"`
	Prog    []string `json:"prog"`
	Faults  []int    `json:"faults"`
	Cat     string   `json:"cat"`
	Trace   []string `json:"trace,omitempty"` // informational only
}

type c13Viol struct {
	cat, sig string
	msg      func() string // built lazily: on the unchanged tree millions of runs violate
}

type c13Out struct {
	viol      []c13Viol // first violation of each category, in order of occurrence
	calls     int       // fault points passed on the primary connection
	fired     int
	ops       int
	classes   []string // non-trivial outcome class (at most one per run)
	trace     []string
	stats     map[string]bool
	stoppedOK bool // a Stop has ended an explicit transaction earlier in this run and the handle was used in the mode it leaves behind
	leakedRB  bool // ... and the transaction that mode leaks was rolled back by a later fault or Abort
}

func (o *c13Out) add(cat, sig string, msg func() string) {
	for _, v := range o.viol {
		if v.cat == cat {
			return
		}
	}
	// witness predicate of the open finding "multi mode survives Stop": a Stop has ended (committed or
	// tried to commit) an explicit transaction earlier in this run on this handle. Everything observed after that gets a
	// signature of its own, so that the same kind of failure WITHOUT an earlier Stop is still reported.
	// The handle leaves that mode again when the client calls Abort (or a new Start succeeds) before doing anything
	// else: runs in which that happened carry no qualifier.
	if o.stoppedOK && cat != "setup" {
		sig += "-after-earlier-stop"
	}
	o.viol = append(o.viol, c13Viol{cat, sig, msg})
}

func (o *c13Out) sigFor(cat string) (string, string) {
	for _, v := range o.viol {
		if v.cat == cat {
			return v.sig, v.msg()
		}
	}
	return "", ""
}

var c13Lang = lang.Language{Code: "nor", Name: "Norwegian"}

func c13Configure(store db.Db, variant string) {
	if variant == "lang" {
		store.SetLock(db.DATATYPE_TEMPLATE, false)
		store.SetPrefix(db.DATATYPE_TEMPLATE)
		store.SetLanguage(&c13Lang)
	} else {
		store.SetPrefix(db.DATATYPE_USERDATA)
	}
	store.SetSession("ss")
}

type c13Res struct {
	val []byte
	err error
	pan string
}

func c13Guard(f func() ([]byte, error)) (r c13Res) {
	defer func() {
		if p := recover(); p != nil {
			r.pan = fmt.Sprint(p)
		}
	}()
	r.val, r.err = f()
	return
}

func (r c13Res) String() string {
	switch {
	case r.pan != "":
		return "PANIC " + r.pan
	case r.err != nil && db.IsNotFound(r.err):
		return "not-found"
	case r.err != nil:
		return "error(" + r.err.Error() + ")"
	case r.val != nil:
		return fmt.Sprintf("ok %q", r.val)
	}
	return "ok"
}

// c13Exec runs one client program with one fault set on a fresh server and evaluates the oracle.
func c13Exec(variant string, prog []int, faults []int, wantTrace bool) *c13Out {
	ctx := context.Background()
	out := &c13Out{stats: map[string]bool{}}
	srv := pgfake.NewServer()
	srv.Strict = true
	srv.Trace = wantTrace
	if variant == "lang" {
		seed := pgfake.Open(srv)
		seed.SetLock(db.DATATYPE_TEMPLATE, false)
		seed.SetPrefix(db.DATATYPE_TEMPLATE)
		seed.SetSession("ss")
		if r := c13Guard(func() ([]byte, error) { return nil, seed.Put(ctx, []byte("k2"), []byte("d2")) }); r.err != nil || r.pan != "" {
			out.add("setup", "setup-seed-failed", func() string { return "seeding the default-language value failed: " + r.String() })
			return out
		}
	}
	plan := pgfake.NewPlan(faults...)
	conn := srv.Connect().WithPlan(plan)
	store := pgfake.OpenConn(conn)
	c13Configure(store, variant)
	verif := pgfake.Open(srv)
	c13Configure(verif, variant)
	m := newC13Model(variant)

	pendingStopOK := false
	linger, taint := false, false // see c13Out.stoppedOK
	type step struct {
		op        int
		forced    bool
		res       c13Res
		fired     []pgfake.Kind
		inTxAfter bool
		open      int
		// expectation of (c), fixed before the operation ran
		expOK  bool
		expVal string
		hasVal bool
		undet  bool
		// Stop after an operation of the transaction failed: may fail or succeed (see the client protocol)
		anyOutcome bool
		// second-connection view problem found right after the step ("" if none / not checked)
		viewSig, viewMsg string
	}
	var steps []step
	undetermined := false
	describe := func() string {
		var b strings.Builder
		for i, s := range steps {
			if i > 0 {
				b.WriteString("; ")
			}
			n := c13OpNames[s.op]
			if s.forced {
				n += "(client, after error in tx)"
			}
			b.WriteString(n + " -> " + s.res.String())
			if len(s.fired) > 0 {
				b.WriteString(fmt.Sprintf(" [fault in %v]", s.fired))
			}
		}
		return fmt.Sprintf("%s variant, faults at driver calls %v: %s", variant, faults, b.String())
	}

	// view compares what the second connection sees with the acknowledged writes.
	view := func(situation string, pending map[string]string) (string, string) {
		for _, k := range c13Keys {
			r := c13Guard(func() ([]byte, error) { return verif.Get(ctx, []byte(k)) })
			if r.pan != "" {
				return "panic-verification-read", fmt.Sprintf("second handle Get %s panicked: %s", k, r.pan)
			}
			want, have := m.committed(k)
			got, gotHave := string(r.val), r.err == nil
			if r.err != nil && !db.IsNotFound(r.err) {
				return "verification-read-error", fmt.Sprintf("second (fault-free) handle Get %s failed: %v", k, r.err)
			}
			if gotHave == have && (!have || got == want) {
				continue
			}
			if pv, ok := pending[k]; ok && gotHave && got == pv {
				continue // explicit transaction open at Close: may have been committed
			}
			w := "nothing"
			if have {
				w = fmt.Sprintf("%q", want)
			}
			g := "nothing"
			if gotHave {
				g = fmt.Sprintf("%q", got)
			}
			wrong := gotHave && (!have || got != want) // sees a value that is not the acknowledged one
			pv, inP := m.P[k]
			var sig string
			switch {
			case situation == "in-tx" && inP && gotHave && got == pv:
				sig = "tx-write-visible-before-stop"
			case situation == "after-stop" && have:
				sig = "tx-write-missing-after-stop"
			case situation == "after-abort" && wrong:
				sig = "tx-write-visible-after-abort"
			case have && situation == "after-close":
				sig = "acked-write-lost"
			case have:
				sig = "acked-write-not-visible"
			default:
				sig = "unacked-write-visible"
			}
			return sig, fmt.Sprintf("second connection sees %s=%s, acknowledged writes say %s (%s)", k, g, w, situation)
		}
		return "", ""
	}

	run := func(op int, forced bool) bool {
		st := step{op: op, forced: forced, undet: undetermined}
		st.expOK = m.faultFreeOK(op)
		st.anyOutcome = op == c13Stop && m.txErr
		if op == c13Get1 || op == c13Get2 || op == c13GetM {
			st.expVal, st.hasVal = m.lookup(c13GetKey(op))
		}
		if op == c13Dump || op == c13Dump1 {
			// inside an explicit transaction the result of a listing is not constrained (own transaction or the
			// caller's: both are defensible); what it does to the caller's transaction is (hygiene and visibility below)
			st.anyOutcome = m.inTx
			if l := m.listing(); !m.inTx && l != "" {
				if op == c13Dump1 {
					l = strings.SplitN(l, ",", 2)[0]
				}
				st.expVal, st.hasVal = l, true
			}
		}
		if pendingStopOK {
			linger, pendingStopOK = true, false
		}
		if linger {
			switch op {
			case c13Abort:
				if taint {
					out.leakedRB = true
				} else {
					linger = false // Abort clears the mode before anything ran in it
				}
			case c13Start:
			default:
				taint = true
			}
		}
		firedBefore := len(plan.Fired)
		logBefore := srv.LogLen()
		wasInTx := m.inTx
		switch op {
		case c13PutA, c13PutB, c13PutC:
			k, v := c13PutArgs(op)
			st.res = c13Guard(func() ([]byte, error) { return nil, store.Put(ctx, []byte(k), []byte(v)) })
		case c13Get1, c13Get2, c13GetM:
			k := c13GetKey(op)
			st.res = c13Guard(func() ([]byte, error) { return store.Get(ctx, []byte(k)) })
		case c13Start:
			st.res = c13Guard(func() ([]byte, error) { return nil, store.Start(ctx) })
		case c13Stop:
			st.res = c13Guard(func() ([]byte, error) { return nil, store.Stop(ctx) })
			pendingStopOK = wasInTx && st.res.pan == "" // a Stop that reached the commit of an explicit transaction (whatever the commit returned)
		case c13Abort:
			st.res = c13Guard(func() ([]byte, error) { store.Abort(ctx); return nil, nil })
		case c13Dump, c13Dump1:
			st.res = c13Guard(func() ([]byte, error) {
				d, err := store.Dump(ctx, []byte("k"))
				if err != nil {
					return nil, err
				}
				var parts []string
				for n := 0; n < 8; n++ {
					k, v := d.Next(ctx)
					if k == nil {
						break
					}
					parts = append(parts, string(k)+"="+string(v))
					if op == c13Dump1 {
						break
					}
				}
				if err := d.Close(); err != nil {
					return nil, err
				}
				return []byte(strings.Join(parts, ",")), nil
			})
		case c13Close:
			st.res = c13Guard(func() ([]byte, error) { return nil, store.Close(ctx) })
		}
		out.ops++
		drv := ""
		if wantTrace {
			drv = srv.LogString(logBefore)
		}
		if len(plan.Fired) > firedBefore {
			st.fired = append(st.fired, plan.FiredKinds[firedBefore:]...)
			if taint {
				out.leakedRB = true
			}
		}
		if linger && !taint && op == c13Start && st.res.pan == "" && st.res.err == nil {
			linger = false // a new explicit transaction began
		}
		out.stoppedOK = linger || taint
		if st.res.pan == "" {
			ok := st.res.err == nil
			if op == c13Close {
				ok = true
			}
			if len(st.fired) > 0 && wasInTx && ok && op != c13Stop && op != c13Abort {
				// a fault fired inside the explicit transaction but the client was not told: the reference cannot follow
				undetermined = true
			}
			m.apply(op, ok)
		}
		st.inTxAfter = m.inTx && op != c13Close // Close ends an explicit transaction that is still open
		st.open = len(srv.OpenTxs(conn.Id()))
		if len(faults) == 0 && st.res.pan == "" && op != c13Close {
			sit := "outside-tx"
			switch {
			case m.inTx:
				sit = "in-tx"
			case op == c13Stop && st.res.err == nil:
				sit = "after-stop"
			case op == c13Abort:
				sit = "after-abort"
			}
			st.viewSig, st.viewMsg = view(sit, nil)
		}
		steps = append(steps, st)
		if wantTrace {
			out.trace = append(out.trace, fmt.Sprintf("%s -> %s | driver: %s", c13OpNames[op], st.res.String(), drv))
		}
		return st.res.pan == ""
	}

	alive := true
	for _, op := range prog {
		// ... except that a client may also end the transaction with Stop without having looked at the
		// error: Stop is then free to fail, but if it reports success the writes of the transaction are there
		if m.inTx && m.txErr && op != c13Stop {
			if alive = run(c13Abort, true); !alive {
				break
			}
		}
		if !m.applicable(op) {
			continue
		}
		if alive = run(op, false); !alive {
			break
		}
	}
	if alive && m.inTx && m.txErr {
		alive = run(c13Abort, true)
	}
	var preSig, preMsg, postSig, postMsg string
	if alive {
		sit := "before-close"
		if m.inTx {
			sit = "in-tx"
		}
		preSig, preMsg = view(sit, nil)
		pending := map[string]string{}
		for k, v := range m.P {
			pending[k] = v
		}
		if alive = run(c13Close, false); alive {
			postSig, postMsg = view("after-close", pending)
		}
	}
	out.calls = plan.Calls
	out.fired = len(plan.Fired)

	// ---- evaluate
	last := -1
	for i, s := range steps {
		if len(s.fired) > 0 {
			last = i
		}
	}
	compared := 0
	for i, s := range steps {
		kind := c13OpKind[s.op]
		if s.res.pan != "" {
			sig := "panic-" + kind
			if s.forced {
				sig = "panic-abort-after-failed-op-in-tx"
			}
			out.add("panic", sig, func() string { return fmt.Sprintf("%s panicked: %s. Run: %s", c13OpNames[s.op], s.res.pan, describe()) })
			break
		}
		// (a) a failed begin / statement / row fetch / commit is reported by the operation
		// Close commits an explicit transaction that is still open: a failed commit there loses acknowledged
		// writes and must be reported like any other (what Close returns WITHOUT a fault is not constrained)
		if s.res.err == nil && kind == "dump" {
			// the listing can report what fails before it hands out the first entry; fetches behind the first entry
			// have no error channel and the commit of its read-only transaction loses nothing: only begin and the
			// statement are required to be reported
			for _, fk := range s.fired {
				if fk == pgfake.KBegin || fk == pgfake.KQuery {
					out.add("err", fmt.Sprintf("fault-not-reported-%s-%s", kind, fk), func() string {
						return fmt.Sprintf("step %d (%s): driver call %s failed during the operation but it returned no error. Run: %s", i, c13OpNames[s.op], fk, describe())
					})
					break
				}
			}
		}
		if s.res.err == nil && (kind == "put" || kind == "get" || kind == "start" || kind == "stop" || s.op == c13Close) {
			for _, fk := range s.fired {
				if fk != pgfake.KRollback {
					out.add("err", fmt.Sprintf("fault-not-reported-%s-%s", kind, fk), func() string {
						return fmt.Sprintf("step %d (%s): driver call %s failed during the operation but it returned no error. Run: %s", i, c13OpNames[s.op], fk, describe())
					})
					break
				}
			}
		}
		// (b) transaction hygiene
		limit := 0
		if s.inTxAfter {
			limit = 1
		}
		if s.open > limit {
			okerr := "ok"
			if s.res.err != nil {
				okerr = "err"
			}
			sig := fmt.Sprintf("tx-left-open-after-%s-%s", kind, okerr)
			if s.inTxAfter {
				sig = "extra-tx-open-inside-explicit-tx"
			} else if kind == "abort" || kind == "close" {
				sig = "tx-left-open-after-" + kind
			}
			out.add("tx", sig, func() string {
				return fmt.Sprintf("step %d (%s): %d transaction(s) of the handle still open after the operation (allowed %d). Run: %s", i, c13OpNames[s.op], s.open, limit, describe())
			})
		}
		// (c) after the last fault every operation behaves as the reference says
		if i > last && !s.undet && !s.anyOutcome && s.op != c13Close && s.op != c13Abort {
			compared++
			switch {
			case s.expOK && s.res.err != nil:
				out.add("res", "spurious-error-"+kind, func() string {
					return fmt.Sprintf("step %d (%s) failed with %q although no driver call failed during or after it and the reference succeeds. Run: %s", i, c13OpNames[s.op], s.res.err.Error(), describe())
				})
			case kind == "dump" && !s.expOK && s.res.err == nil && len(s.res.val) > 0:
				out.add("res", "dump-lists-unacknowledged-entries", func() string {
					return fmt.Sprintf("step %d (%s) listed %q although no acknowledged write exists. Run: %s", i, c13OpNames[s.op], s.res.val, describe())
				})
			case kind == "dump" && !s.expOK:
				// an empty listing may be reported as not-found, as another error or as an empty dumper
			case kind == "dump" && s.hasVal && !bytes.Equal(s.res.val, []byte(s.expVal)):
				out.add("res", "dump-wrong-listing", func() string {
					return fmt.Sprintf("step %d (%s) listed %q, acknowledged writes say %q. Run: %s", i, c13OpNames[s.op], s.res.val, s.expVal, describe())
				})
			case !s.expOK && s.res.err == nil:
				out.add("res", "get-missing-key-succeeds", func() string {
					return fmt.Sprintf("step %d (%s) returned %q although no acknowledged write holds that key. Run: %s", i, c13OpNames[s.op], s.res.val, describe())
				})
			case !s.expOK && !db.IsNotFound(s.res.err):
				out.add("res", "get-missing-key-not-notfound", func() string {
					return fmt.Sprintf("step %d (%s) failed with %q instead of not-found, no driver call failed. Run: %s", i, c13OpNames[s.op], s.res.err.Error(), describe())
				})
			case s.hasVal && !bytes.Equal(s.res.val, []byte(s.expVal)):
				out.add("res", "get-wrong-value", func() string {
					return fmt.Sprintf("step %d (%s) returned %q, acknowledged writes say %q. Run: %s", i, c13OpNames[s.op], s.res.val, s.expVal, describe())
				})
			}
		}
		// (d) + visibility after every step of the fault-free run
		if s.viewSig != "" && !s.undet {
			out.add("vis", s.viewSig, func() string {
				return fmt.Sprintf("after step %d (%s): %s. Run: %s", i, c13OpNames[s.op], s.viewMsg, describe())
			})
		}
	}
	if alive || len(steps) > 0 && steps[len(steps)-1].op == c13Close {
		if preSig != "" && !undetermined {
			out.add("vis", preSig, func() string { return fmt.Sprintf("before Close: %s. Run: %s", preMsg, describe()) })
		}
		if postSig != "" && !undetermined {
			out.add("vis", postSig, func() string { return fmt.Sprintf("after Close: %s. Run: %s", postMsg, describe()) })
		}
	}
	if n := conn.UsedAfterEnd(); n > 0 {
		out.add("tx", "tx-used-after-end", func() string {
			return fmt.Sprintf("%d statement(s) were issued on a transaction after it had been committed/rolled back. Run: %s", n, describe())
		})
	}

	// ---- coverage classes
	if last >= 0 && compared > 0 {
		var parts []string
		for _, s := range steps {
			for _, fk := range s.fired {
				parts = append(parts, fmt.Sprintf("%s/%s", c13OpKind[s.op], fk))
			}
		}
		sort.Strings(parts)
		out.classes = append(out.classes, variant+":"+strings.Join(parts, "+"))
	}
	// implementation-dependent coverage statistics (counters, not vacuity conditions)
	for _, s := range steps {
		if s.op == c13Stop && s.res.err == nil && s.res.pan == "" {
			out.stats["runs_with_successful_stop"] = true
		}
		if s.op == c13Abort && !s.forced {
			out.stats["runs_with_client_abort"] = true
		}
		if s.forced {
			out.stats["runs_with_abort_after_error_in_tx"] = true
		}
	}
	if compared > 0 && last >= 0 {
		out.stats["runs_with_recovery_compared"] = true
	}
	return out
}

func c13ProgNames(prog []int) []string {
	n := make([]string, len(prog))
	for i, op := range prog {
		n[i] = c13OpNames[op]
	}
	return n
}

func c13Replay(w json.RawMessage) (string, string) {
	var wit c13Witness
	if err := json.Unmarshal(w, &wit); err != nil {
		return "bad-witness", err.Error()
	}
	var prog []int
	for _, n := range wit.Prog {
		op, ok := c13OpByName(n)
		if !ok {
			return "bad-witness", "unknown operation " + n
		}
		prog = append(prog, op)
	}
	out := c13Exec(wit.Variant, prog, wit.Faults, false)
	if wit.Cat == "" && len(out.viol) > 0 {
		return out.viol[0].sig, out.viol[0].msg()
	}
	return out.sigFor(wit.Cat)
}

func c13Run(c *mc.Ctx) {
	variants := []string{"userdata", "lang"}
	depths := map[string]int{"userdata": 4, "lang": 4}
	if c.Thorough() {
		variants = []string{"userdata", "userdata-core", "lang"}
		depths = map[string]int{"userdata": 5, "userdata-core": 6, "lang": 5}
	}
	c.Note("max_program_length", fmt.Sprintf("userdata=%d userdata-core=%d lang=%d", depths["userdata"], depths["userdata-core"], depths["lang"]))
	c.Note("max_faults_per_run", "2")
	c.Note("variants", strings.Join(variants, ","))
	c.Note("alphabet", strings.Join(c13OpNames[:c13NOps], " | "))

	seenSig := map[string]int{}
	one := func(variant string, prog []int, faults []int) *c13Out {
		out := c13Exec(variant, prog, faults, false)
		c.Count("evaluations", 1)
		c.Count("transitions", int64(out.ops))
		c.Count(fmt.Sprintf("runs_with_%d_faults", len(faults)), 1)
		if out.fired < len(faults) {
			c.Count("runs_where_a_planned_fault_was_not_reached", 1)
		}
		for _, cl := range out.classes {
			c.Distinct("nontrivial", cl)
		}
		for k := range out.stats {
			c.Count(k, 1)
		}
		if out.fired >= 1 {
			c.Vacuity("a-planned-fault-fired", true)
		}
		if out.fired == 2 {
			c.Vacuity("two-planned-faults-fired", true)
		}
		for _, v := range out.viol {
			if seenSig[v.sig] >= 3 { // mc keeps the first three witnesses per signature and worker; only count the rest
				c.Fail(v.sig, "", nil)
				continue
			}
			seenSig[v.sig]++
			tr := c13Exec(variant, prog, faults, true).trace
			c.Fail(v.sig, v.msg(), c13Witness{Variant: variant, Prog: c13ProgNames(prog), Faults: append([]int{}, faults...), Cat: v.cat, Trace: tr})
		}
		return out
	}
	// driver-side vacuity: the generated programs contain committed, aborted and failing explicit transactions,
	// and fault plans with one and two faults fire (a planned call number always exists in the run it was counted in)
	for _, k := range []string{"program-with-start-stop", "program-with-start-abort", "program-with-failing-get-in-tx", "a-planned-fault-fired", "two-planned-faults-fired"} {
		c.Vacuity(k, false)
	}
	sampled := 0
	for _, variant := range variants {
		depth := depths[variant]
		var prog []int
		stop := false
		var rec func(m *c13Model)
		rec = func(m *c13Model) {
			if stop {
				return
			}
			if len(prog) > 0 {
				if c.Mine() {
					c13ProgVacuity(c, prog)
					base := one(variant, prog, nil)
					c.Count("programs", 1)
					c.Count("primitive_calls_fault_free", int64(base.calls))
					n1 := make([]int, base.calls+1)
					for i := 1; i <= base.calls; i++ {
						n1[i] = one(variant, prog, []int{i}).calls
					}
					for i := 1; i <= base.calls; i++ {
						for j := i + 1; j <= n1[i]; j++ {
							one(variant, prog, []int{i, j})
						}
					}
					if sampled < 2 && len(prog) == depth && c.Item()%97 == 0 {
						sampled++
						c.Sample(map[string]any{"variant": variant, "program": c13ProgNames(prog), "fault_points_fault_free": base.calls, "trace_fault_free": c13Exec(variant, prog, nil, true).trace})
					}
					if c.TimeUp() {
						stop = true
						return
					}
				}
			}
			if len(prog) == depth {
				return
			}
			for op := 0; op < c13NOps; op++ {
				if !c13HasOp(variant, op) {
					continue
				}
				// the reference decides conformance of the fault-free client: a pending error in the
				// explicit transaction is followed by the client's Abort before the next step
				mm := c13CloneModel(m)
				if mm.inTx && mm.txErr && op != c13Stop {
					mm.apply(c13Abort, true)
				}
				if !mm.applicable(op) || (variant != "userdata" && op == c13Abort && !mm.inTx) {
					continue
				}
				mm.apply(op, mm.faultFreeOK(op))
				prog = append(prog, op)
				rec(mm)
				prog = prog[:len(prog)-1]
			}
		}
		rec(newC13Model(variant))
		if stop {
			return
		}
	}
}

func c13ProgVacuity(c *mc.Ctx, prog []int) {
	in := false
	for i, op := range prog {
		switch op {
		case c13Start:
			in = true
		case c13Stop:
			c.Vacuity("program-with-start-stop", true)
			in = false
		case c13Abort:
			if in {
				c.Vacuity("program-with-start-abort", true)
			}
			in = false
		case c13GetM:
			if in && i < len(prog)-1 {
				c.Vacuity("program-with-failing-get-in-tx", true)
			}
		}
	}
}

func c13CloneModel(m *c13Model) *c13Model {
	n := &c13Model{C: map[string]string{}, P: map[string]string{}, D: m.D, inTx: m.inTx, txErr: m.txErr}
	for k, v := range m.C {
		n.C[k] = v
	}
	for k, v := range m.P {
		n.P[k] = v
	}
	return n
}
