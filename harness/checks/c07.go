package checks

import (
	"encoding/json"
	"fmt"
	"strings"

	"git.defalsify.org/vise.git/persist"

	"verif/app"
	"verif/codec"
	"verif/mc"
)

// C07 — a persisted session resumes exactly where an uninterrupted one would be.

func init() {
	register(&mc.Check{
		ID:    "C07",
		Level: "model_checking",
		Rule: "the shared corpus (collision applications of all other checks + repository examples) x configuration variants (OutputSize 0/tight/ample, CacheSize 0/tight) x ALL input histories up to depth d over the application's selectors + junk {'', zz, 256 x a}; each history is served in lockstep by one long-lived engine and by a fresh store handle + Persister + engine per request on each of mem, fs (text keys), fs (binary keys) and Postgres over the in-process fake, in both client styles after an error (Finish always / Finish only after success), plus one twin whose persister flushes after every save; " +
			"oracle: per request the tuples (output bytes, continue flag, Exec error?, Flush error?) are equal across all modes and backends, and the stored snapshot decodes and re-encodes to an equal snapshot; states = distinct (app, config, canonical session state) reached; non-trivial = histories whose final position is below the entry node or that passed an error",
		Assumptions: []string{"a long-lived engine is not continued after its session ended (Exec after a stop is documented as undefined); the persisted twins continue", "external functions are deterministic functions of their own call history"},
		Run:         c07Run,
		Replay:      c07Replay,
		MinItems:    100,
	})
}

type c07Witness struct {
	App    string `json:"app"`
	Cfg    int    `json:"config_variant"`
	Inputs qstrs  `json:"inputs"`
	// Shared: two sessions (Inputs, InputsB) served alternately through ONE flushing persister
	Shared  bool  `json:"shared_persister,omitempty"`
	InputsB qstrs `json:"inputs_b,omitempty"`
	Lag     int   `json:"b_starts_after_requests_of_a,omitempty"`
}

// c07Shared serves two sessions of the same application alternately (A first) through one long-lived
// persister that flushes after every save (Persister.WithFlush, re-pointed with WithSession) and one
// store handle; each session is compared, request by request, with a twin that is served alone with a
// fresh persister per request: same client-visible result and an equal stored snapshot.
func c07Shared(ap corpusApp, cfgi int, ha, hb []string, lag int, c *mc.Ctx) (sig, msg string, reqs int) {
	cfg := ap.Cfgs[cfgi]
	open := app.MemStore()
	pe := persist.NewPersister(open()).WithFlush()
	mk := func(sid string, shared bool) *app.Session {
		cf := cfg
		cf.SessionId = sid
		s := app.NewSession(ap.Build(), cf, app.Persisted)
		// (always Finish: a client that skips Finish after an error leaves the shared persister holding that
		// session, and the next NEW session is then created from it - the arrangement is not claimed to work)
		s.FinishOnError = true
		if shared {
			s.Open = open
			s.SharedPe = pe
		} else {
			s.Open = app.MemStore()
		}
		return s
	}
	sh := []*app.Session{mk("sA", true), mk("sB", true)}
	solo := []*app.Session{mk("sA", false), mk("sB", false)}
	hs := [][]string{ha, hb}
	dead := []bool{false, false}
	// lag: session B's first request comes after A has served lag requests (B is a new session for a
	// persister that has just flushed A)
	for k := 0; k < len(ha)+lag || k < len(hb)+lag; k++ {
		for i := 0; i < 2; i++ {
			k := k
			if i == 1 {
				k -= lag
			}
			if k < 0 || k >= len(hs[i]) || dead[i] {
				continue
			}
			in := hs[i][k]
			where := fmt.Sprintf("%s cfg %+v sessions A %q / B %q served alternately (B starts after %d requests of A), request %d of session %c", ap.Name, cfg, shortList(ha), shortList(hb), lag, k, 'A'+rune(i))
			r := sh[i].Request([]byte(in))
			w := solo[i].Request([]byte(in))
			reqs += 2
			if r.Panic != "" {
				return "panic-shared-persister", fmt.Sprintf("%s: panic %s", where, r.Panic), reqs
			}
			if w.Panic != "" {
				return "panic-persisted", fmt.Sprintf("%s: served alone: panic %s", where, w.Panic), reqs
			}
			if r.Client() != w.Client() {
				return "shared-persister-differs", fmt.Sprintf("%s: through the shared persister %s; served alone %s", where, short(r.Client()), short(w.Client())), reqs
			}
			if r.FinishErr != w.FinishErr {
				return "shared-persister-differs", fmt.Sprintf("%s: Finish through the shared persister: %q; served alone: %q", where, r.FinishErr, w.FinishErr), reqs
			}
			if r.FinishErr != "" {
				dead[i] = true // not saved: nothing more to compare for this session
				continue
			}
			st1, ca1, _, e1 := sh[i].Snapshot()
			st2, ca2, _, e2 := solo[i].Snapshot()
			if (e1 != nil) != (e2 != nil) {
				return "shared-persister-snapshot-differs", fmt.Sprintf("%s: stored session readable: shared %v, alone %v", where, e1, e2), reqs
			}
			if e1 == nil && app.StateKey(st1, ca1) != app.StateKey(st2, ca2) {
				return "shared-persister-snapshot-differs", fmt.Sprintf("%s: stored through the shared persister: %s; served alone: %s", where, app.StateKey(st1, ca1), app.StateKey(st2, ca2)), reqs
			}
			if c != nil && e1 == nil {
				c.Distinct("states", ap.Name, fmt.Sprint(cfgi), app.StateKey(st1, ca1))
				if len(st1.ExecPath) > 1 {
					c.Distinct("nontrivial", ap.Name, "shared", strings.Join(ha, "\x00"), strings.Join(hb, "\x00"))
				}
			}
		}
	}
	return "", "", reqs
}

var c07Junk = []string{"", "zz", strings.Repeat("a", 256), "a\xff\xfe"}

type c07Twin struct {
	name string
	s    *app.Session
	cl   func()
}

func c07History(ap corpusApp, cfgi int, inputs []string, c *mc.Ctx) (sig, msg string, reqs int) {
	cfg := ap.Cfgs[cfgi]
	var twins []c07Twin
	ll, _ := openBackend(ap.Build(), lsOpts{Mode: "long-lived", Cfg: cfg})
	for _, b := range []string{"mem", "fs", "fsbin", "pg"} {
		for _, style := range []bool{true, false} {
			s, cl := openBackend(ap.Build(), lsOpts{Mode: "persisted", Backend: b, Cfg: cfg})
			s.FinishOnError = style
			n := "persisted-" + b
			if style {
				n += "-finish-always"
			} else {
				n += "-finish-on-success"
			}
			twins = append(twins, c07Twin{n, s, cl})
		}
	}
	{
		// one more twin: the persister flushes state and memory after every save (Persister.WithFlush)
		s, cl := openBackend(ap.Build(), lsOpts{Mode: "persisted", Backend: "mem", Cfg: cfg})
		s.Flush = true
		twins = append(twins, c07Twin{"persisted-mem-with-flush", s, cl})
	}
	{
		// the application's functions keep their own data in the store handle the persister uses (examples/db)
		s, cl := openBackend(ap.Build(), lsOpts{Mode: "persisted", Backend: "mem", Cfg: cfg})
		s.AppUsesStore = true
		twins = append(twins, c07Twin{"persisted-mem-store-shared-with-application", s, cl})
	}
	{
		// a gateway that serves every request with one call of engine.Loop (initial input, nothing to read)
		s, cl := openBackend(ap.Build(), lsOpts{Mode: "persisted", Backend: "mem", Cfg: cfg})
		s.ViaLoop = true
		twins = append(twins, c07Twin{"persisted-mem-via-engine-loop", s, cl})
	}
	{
		// and one engine WITH a persister kept for the whole session (the engine.Loop arrangement): like the
		// long-lived engine it is not continued after the session ended
		s, cl := openBackend(ap.Build(), lsOpts{Mode: "long-lived-persister", Backend: "mem", Cfg: cfg})
		twins = append(twins, c07Twin{"long-lived-with-persister", s, cl})
	}
	defer func() {
		for _, t := range twins {
			t.cl()
		}
	}()
	llAlive := true
	passedError := false
	codeLost := false
	for k, in := range inputs {
		where := fmt.Sprintf("%s cfg %+v request %d of %q", ap.Name, cfg, k, shortList(inputs[:k+1]))
		var base app.Resp
		baseName := ""
		if llAlive {
			base = ll.Request([]byte(in))
			baseName = "long-lived"
			reqs++
			if base.Panic != "" {
				return "panic-long-lived", fmt.Sprintf("%s: long-lived engine panics: %s", where, base.Panic), reqs
			}
		}
		for ti, t := range twins {
			if t.s == nil {
				continue
			}
			r := t.s.Request([]byte(in))
			reqs++
			if r.Panic != "" {
				return "panic-persisted", fmt.Sprintf("%s: %s panics: %s", where, t.name, r.Panic), reqs
			}
			if !llAlive && baseName == "" {
				base, baseName = r, t.name
				continue
			}
			if t.s.ViaLoop {
				// Loop reports neither continue/stop nor which of Exec and Flush failed; a failed request shows nothing
				bErr := base.ExecErr != "" || base.FlushErr != ""
				if (r.ExecErr != "") != bErr || (!bErr && r.Out != base.Out) {
					sg := "loop-gateway-differs"
					if passedError {
						sg += "-after-error"
					}
					return sg, fmt.Sprintf("%s: %s gives out=%q err=%q; %s gives %s", where, t.name, short(r.Out), r.ExecErr, baseName, short(base.Client())), reqs
				}
				if bErr {
					twins[ti].s = nil // what Loop leaves behind after an error is its own business
				}
				continue
			}
			if r.Client() != base.Client() {
				sg := "persisted-differs-from-long-lived"
				if baseName != "long-lived" {
					sg = "backends-differ"
				}
				if codeLost {
					// witness predicate of the open finding: an earlier request of this history failed in Exec
					// and left the session with no pending bytecode at all
					sg += "-after-exec-error-left-no-code"
				} else if passedError {
					sg += "-after-error"
				}
				return sg, fmt.Sprintf("%s: %s gives %s; %s gives %s", where, t.name, short(r.Client()), baseName, short(base.Client())), reqs
			}
			if t.s.Mode == app.KeptEngine {
				if !r.Cont && r.ExecErr == "" {
					twins[ti].s = nil // the session ended; Exec on the same engine is undefined from here
				}
				continue
			}
			if r.FinishErr == "-" {
				// this client did not save the session after an error: the premise "saves it back" no
				// longer holds for this twin; it is not compared any further
				twins[ti].s = nil
				continue
			}
			// saving and loading changes nothing: decode(stored) == in-memory state that was saved
			if r.FinishErr == "" && t.s.St != nil && !t.s.Flush {
				st, ca, _, err := t.s.Snapshot()
				if err != nil {
					return "snapshot-unreadable", fmt.Sprintf("%s: %s: stored session unreadable: %v", where, t.name, err), reqs
				}
				if app.StateKey(st, ca) != app.StateKey(t.s.St, t.s.Ca) {
					return "snapshot-not-equal", fmt.Sprintf("%s: %s: stored %s, saved from %s", where, t.name, app.StateKey(st, ca), app.StateKey(t.s.St, t.s.Ca)), reqs
				}
			}
		}
		if base.ExecErr != "" || base.FlushErr != "" {
			passedError = true
		}
		if llAlive && base.ExecErr != "" && ll.St != nil && len(ll.St.Code) == 0 && len(ll.St.ExecPath) == 0 {
			codeLost = true
		}
		if c != nil && twins[0].s != nil && twins[0].s.St != nil {
			key := app.StateKey(twins[0].s.St, twins[0].s.Ca)
			c.Distinct("states", ap.Name, fmt.Sprint(cfgi), key)
		}
		if llAlive && !base.Cont && base.ExecErr == "" {
			llAlive = false // the session ended; Exec on the same engine is undefined from here
		}
	}
	if c != nil && twins[0].s != nil && twins[0].s.St != nil && (len(twins[0].s.St.ExecPath) > 1 || passedError) {
		c.Distinct("nontrivial", ap.Name, fmt.Sprint(cfgi), strings.Join(inputs, "\x00"))
	}
	return "", "", reqs
}

func c07Replay(w json.RawMessage) (string, string) {
	var wit c07Witness
	if err := json.Unmarshal(w, &wit); err != nil {
		return "bad-witness", err.Error()
	}
	if wit.App == "directed-deep" {
		return c07Deep()
	}
	ap, ok := corpusByName(wit.App)
	if !ok {
		return "bad-witness", "unknown app"
	}
	if wit.Shared {
		s, m, _ := c07Shared(ap, wit.Cfg, wit.Inputs, wit.InputsB, wit.Lag, nil)
		return s, m
	}
	s, m, _ := c07History(ap, wit.Cfg, wit.Inputs, nil)
	return s, m
}

// c07Deep: a directed long history at the navigation depth limit (135 descents through a 2-cycle,
// then ascents), long-lived against persisted on mem and fs.
func c07Deep() (string, string) {
	build := func() *app.App {
		a := app.New("deep")
		a.Node("root", "root", codec.Ins{Op: codec.HALT}, codec.Ins{Op: codec.INCMP, Sym: "aa", Sel: "1"})
		a.Node("aa", "aa", codec.Ins{Op: codec.HALT}, codec.Ins{Op: codec.INCMP, Sym: "bb", Sel: "1"}, codec.Ins{Op: codec.INCMP, Sym: "_", Sel: "0"})
		a.Node("bb", "bb", codec.Ins{Op: codec.HALT}, codec.Ins{Op: codec.INCMP, Sym: "aa", Sel: "1"}, codec.Ins{Op: codec.INCMP, Sym: "_", Sel: "0"})
		a.Node("_catch", "catch", codec.Ins{Op: codec.HALT}, codec.Ins{Op: codec.INCMP, Sym: "_", Sel: "*"})
		return a
	}
	ll, _ := openBackend(build(), lsOpts{Mode: "long-lived"})
	pm, cl1 := openBackend(build(), lsOpts{Mode: "persisted", Backend: "mem"})
	pf, cl2 := openBackend(build(), lsOpts{Mode: "persisted", Backend: "fs"})
	defer cl1()
	defer cl2()
	ins := []string{""}
	for i := 0; i < 135; i++ {
		ins = append(ins, "1")
	}
	for i := 0; i < 20; i++ {
		ins = append(ins, "0")
	}
	for k, in := range ins {
		b := ll.Request([]byte(in))
		for _, t := range []*app.Session{pm, pf} {
			r := t.Request([]byte(in))
			if r.Panic != "" || r.Client() != b.Client() {
				return "persisted-differs-from-long-lived-at-depth-limit", fmt.Sprintf("135 descents then ascents, request %d (depth about %d): persisted gives %s %s; long-lived gives %s", k, k, short(r.Client()), r.Panic, short(b.Client()))
			}
		}
	}
	return "", ""
}

func c07Run(c *mc.Ctx) {
	if c.Mine() {
		c.Count("evaluations", 1)
		if sig, msg := c07Deep(); sig != "" {
			c.Fail(sig, msg, c07Witness{App: "directed-deep"})
		}
	}
	depth := 3
	if c.Thorough() {
		depth = 4
	}
	c.Note("history_depth_after_first_request", fmt.Sprint(depth))
	apps := corpus()
	c.Note("corpus_apps", fmt.Sprint(len(apps)))
	for _, ap := range apps {
		alpha := append(append([]string{}, ap.Inputs...), c07Junk...)
		if len(alpha) > 9 && !c.Thorough() {
			alpha = append(append([]string{}, ap.Inputs[:6]...), c07Junk...)
		}
		for cfgi := range ap.Cfgs {
			for _, first := range alpha {
				if !c.Mine() {
					continue
				}
				histories(alpha, depth-1, func(rest []string) {
					h := append([]string{"", first}, rest...)
					sig, msg, reqs := c07History(ap, cfgi, h, c)
					c.Count("evaluations", 1)
					c.Count("transitions", int64(reqs))
					if sig != "" {
						c.Fail(sig, msg, c07Witness{App: ap.Name, Cfg: cfgi, Inputs: h})
					}
				})
				if c.TimeUp() {
					return
				}
			}
		}
		// two sessions through one flushing persister: all pairs of histories of depth sd over the selectors
		sd := 2
		if c.Thorough() {
			sd = 3
		}
		sel := ap.Inputs
		if len(sel) > 4 {
			sel = sel[:4]
		}
		for _, first := range sel {
			if !c.Mine() {
				continue
			}
			histories(sel, sd-1, func(ra []string) {
				ha := append([]string{"", first}, ra...)
				histories(sel, sd, func(rb []string) {
					hb := append([]string{""}, rb...)
					for _, lag := range []int{0, 2} {
						sig, msg, reqs := c07Shared(ap, 0, ha, hb, lag, c)
						c.Count("evaluations", 1)
						c.Count("shared_persister_pairs", 1)
						c.Count("transitions", int64(reqs))
						if sig != "" {
							c.Fail(sig, msg, c07Witness{App: ap.Name, Cfg: 0, Inputs: ha, Shared: true, InputsB: hb, Lag: lag})
						}
					}
				})
			})
			if c.TimeUp() {
				return
			}
		}
		if ap.Name == "echo" {
			c.Sample(map[string]any{"app": ap.Name, "alphabet": shortList(alpha), "modes": "long-lived + {mem,fs,fsbin,pg} x {finish-always,finish-on-success}"})
		}
	}
}
