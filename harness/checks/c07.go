package checks

import (
	"encoding/json"
	"fmt"
	"strings"

	"verif/app"
	"verif/codec"
	"verif/mc"
)

// C07 — a persisted session resumes exactly where an uninterrupted one would be.

func init() {
	register(&mc.Check{
		ID:    "C07",
		Level: "model_checking",
		Rule: "the shared corpus (collision applications of all other checks + repository examples) x configuration variants (OutputSize 0/tight/ample, CacheSize 0/tight) x ALL input histories up to depth d over the application's selectors + junk {'', zz, 256 x a}; each history is served in lockstep by one long-lived engine and by a fresh store handle + Persister + engine per request on each of mem, fs (text keys), fs (binary keys) and Postgres over the in-process fake, in both client styles after an error (Finish always / Finish only after success), plus one twin whose persister flushes after every save; " +
			"oracle: per request the tuples (output bytes, continue flag, Exec error?, Flush error?) are equal across all modes and backends, and the stored snapshot decodes and re-encodes to an equal snapshot; states = distinct (app, config, canonical session state) reached; non-trivial = histories whose final position is below the entry node or that passed an error",
		Assumptions: []string{"a long-lived engine is not continued after its session ended (Exec after a stop is documented as undefined); the persisted twins continue", "external functions are deterministic functions of their own call history"},
		Run:         c07Run,
		Replay:      c07Replay,
		MinItems:    100,
	})
}

type c07Witness struct {
	App    string `json:"app"`
	Cfg    int    `json:"config_variant"`
	Inputs qstrs  `json:"inputs"`
}

var c07Junk = []string{"", "zz", strings.Repeat("a", 256), "a\xff\xfe"}

type c07Twin struct {
	name string
	s    *app.Session
	cl   func()
}

func c07History(ap corpusApp, cfgi int, inputs []string, c *mc.Ctx) (sig, msg string, reqs int) {
	cfg := ap.Cfgs[cfgi]
	var twins []c07Twin
	ll, _ := openBackend(ap.Build(), lsOpts{Mode: "long-lived", Cfg: cfg})
	for _, b := range []string{"mem", "fs", "fsbin", "pg"} {
		for _, style := range []bool{true, false} {
			s, cl := openBackend(ap.Build(), lsOpts{Mode: "persisted", Backend: b, Cfg: cfg})
			s.FinishOnError = style
			n := "persisted-" + b
			if style {
				n += "-finish-always"
			} else {
				n += "-finish-on-success"
			}
			twins = append(twins, c07Twin{n, s, cl})
		}
	}
	{
		// one more twin: the persister flushes state and memory after every save (Persister.WithFlush)
		s, cl := openBackend(ap.Build(), lsOpts{Mode: "persisted", Backend: "mem", Cfg: cfg})
		s.Flush = true
		twins = append(twins, c07Twin{"persisted-mem-with-flush", s, cl})
	}
	defer func() {
		for _, t := range twins {
			t.cl()
		}
	}()
	llAlive := true
	passedError := false
	codeLost := false
	for k, in := range inputs {
		where := fmt.Sprintf("%s cfg %+v request %d of %q", ap.Name, cfg, k, shortList(inputs[:k+1]))
		var base app.Resp
		baseName := ""
		if llAlive {
			base = ll.Request([]byte(in))
			baseName = "long-lived"
			reqs++
			if base.Panic != "" {
				return "panic-long-lived", fmt.Sprintf("%s: long-lived engine panics: %s", where, base.Panic), reqs
			}
		}
		for ti, t := range twins {
			if t.s == nil {
				continue
			}
			r := t.s.Request([]byte(in))
			reqs++
			if r.Panic != "" {
				return "panic-persisted", fmt.Sprintf("%s: %s panics: %s", where, t.name, r.Panic), reqs
			}
			if !llAlive && baseName == "" {
				base, baseName = r, t.name
				continue
			}
			if r.Client() != base.Client() {
				sg := "persisted-differs-from-long-lived"
				if baseName != "long-lived" {
					sg = "backends-differ"
				}
				if codeLost {
					// witness predicate of the open finding: an earlier request of this history failed in Exec
					// and left the session with no pending bytecode at all
					sg += "-after-exec-error-left-no-code"
				} else if passedError {
					sg += "-after-error"
				}
				return sg, fmt.Sprintf("%s: %s gives %s; %s gives %s", where, t.name, short(r.Client()), baseName, short(base.Client())), reqs
			}
			if r.FinishErr == "-" {
				// this client did not save the session after an error: the premise "saves it back" no
				// longer holds for this twin; it is not compared any further
				twins[ti].s = nil
				continue
			}
			// saving and loading changes nothing: decode(stored) == in-memory state that was saved
			if r.FinishErr == "" && t.s.St != nil && !t.s.Flush {
				st, ca, _, err := t.s.Snapshot()
				if err != nil {
					return "snapshot-unreadable", fmt.Sprintf("%s: %s: stored session unreadable: %v", where, t.name, err), reqs
				}
				if app.StateKey(st, ca) != app.StateKey(t.s.St, t.s.Ca) {
					return "snapshot-not-equal", fmt.Sprintf("%s: %s: stored %s, saved from %s", where, t.name, app.StateKey(st, ca), app.StateKey(t.s.St, t.s.Ca)), reqs
				}
			}
		}
		if base.ExecErr != "" || base.FlushErr != "" {
			passedError = true
		}
		if llAlive && base.ExecErr != "" && ll.St != nil && len(ll.St.Code) == 0 && len(ll.St.ExecPath) == 0 {
			codeLost = true
		}
		if c != nil && twins[0].s != nil && twins[0].s.St != nil {
			key := app.StateKey(twins[0].s.St, twins[0].s.Ca)
			c.Distinct("states", ap.Name, fmt.Sprint(cfgi), key)
		}
		if llAlive && !base.Cont && base.ExecErr == "" {
			llAlive = false // the session ended; Exec on the same engine is undefined from here
		}
	}
	if c != nil && twins[0].s != nil && twins[0].s.St != nil && (len(twins[0].s.St.ExecPath) > 1 || passedError) {
		c.Distinct("nontrivial", ap.Name, fmt.Sprint(cfgi), strings.Join(inputs, "\x00"))
	}
	return "", "", reqs
}

func c07Replay(w json.RawMessage) (string, string) {
	var wit c07Witness
	if err := json.Unmarshal(w, &wit); err != nil {
		return "bad-witness", err.Error()
	}
	if wit.App == "directed-deep" {
		return c07Deep()
	}
	ap, ok := corpusByName(wit.App)
	if !ok {
		return "bad-witness", "unknown app"
	}
	s, m, _ := c07History(ap, wit.Cfg, wit.Inputs, nil)
	return s, m
}

// c07Deep: a directed long history at the navigation depth limit (135 descents through a 2-cycle,
// then ascents), long-lived against persisted on mem and fs.
func c07Deep() (string, string) {
	build := func() *app.App {
		a := app.New("deep")
		a.Node("root", "root", codec.Ins{Op: codec.HALT}, codec.Ins{Op: codec.INCMP, Sym: "aa", Sel: "1"})
		a.Node("aa", "aa", codec.Ins{Op: codec.HALT}, codec.Ins{Op: codec.INCMP, Sym: "bb", Sel: "1"}, codec.Ins{Op: codec.INCMP, Sym: "_", Sel: "0"})
		a.Node("bb", "bb", codec.Ins{Op: codec.HALT}, codec.Ins{Op: codec.INCMP, Sym: "aa", Sel: "1"}, codec.Ins{Op: codec.INCMP, Sym: "_", Sel: "0"})
		a.Node("_catch", "catch", codec.Ins{Op: codec.HALT}, codec.Ins{Op: codec.INCMP, Sym: "_", Sel: "*"})
		return a
	}
	ll, _ := openBackend(build(), lsOpts{Mode: "long-lived"})
	pm, cl1 := openBackend(build(), lsOpts{Mode: "persisted", Backend: "mem"})
	pf, cl2 := openBackend(build(), lsOpts{Mode: "persisted", Backend: "fs"})
	defer cl1()
	defer cl2()
	ins := []string{""}
	for i := 0; i < 135; i++ {
		ins = append(ins, "1")
	}
	for i := 0; i < 20; i++ {
		ins = append(ins, "0")
	}
	for k, in := range ins {
		b := ll.Request([]byte(in))
		for _, t := range []*app.Session{pm, pf} {
			r := t.Request([]byte(in))
			if r.Panic != "" || r.Client() != b.Client() {
				return "persisted-differs-from-long-lived-at-depth-limit", fmt.Sprintf("135 descents then ascents, request %d (depth about %d): persisted gives %s %s; long-lived gives %s", k, k, short(r.Client()), r.Panic, short(b.Client()))
			}
		}
	}
	return "", ""
}

func c07Run(c *mc.Ctx) {
	if c.Mine() {
		c.Count("evaluations", 1)
		if sig, msg := c07Deep(); sig != "" {
			c.Fail(sig, msg, c07Witness{App: "directed-deep"})
		}
	}
	depth := 3
	if c.Thorough() {
		depth = 4
	}
	c.Note("history_depth_after_first_request", fmt.Sprint(depth))
	apps := corpus()
	c.Note("corpus_apps", fmt.Sprint(len(apps)))
	for _, ap := range apps {
		alpha := append(append([]string{}, ap.Inputs...), c07Junk...)
		if len(alpha) > 9 && !c.Thorough() {
			alpha = append(append([]string{}, ap.Inputs[:6]...), c07Junk...)
		}
		for cfgi := range ap.Cfgs {
			for _, first := range alpha {
				if !c.Mine() {
					continue
				}
				histories(alpha, depth-1, func(rest []string) {
					h := append([]string{"", first}, rest...)
					sig, msg, reqs := c07History(ap, cfgi, h, c)
					c.Count("evaluations", 1)
					c.Count("transitions", int64(reqs))
					if sig != "" {
						c.Fail(sig, msg, c07Witness{App: ap.Name, Cfg: cfgi, Inputs: h})
					}
				})
				if c.TimeUp() {
					return
				}
			}
		}
		if ap.Name == "echo" {
			c.Sample(map[string]any{"app": ap.Name, "alphabet": shortList(alpha), "modes": "long-lived + {mem,fs,fsbin,pg} x {finish-always,finish-on-success}"})
		}
	}
}
