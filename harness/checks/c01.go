package checks

import (
	"context"
	"encoding/json"
	"fmt"
	"strings"

	"git.defalsify.org/vise.git/engine"
	"git.defalsify.org/vise.git/resource"

	"verif/app"
	"verif/codec"
	"verif/mc"
)

// C01 — every page handed to the client fits the output size; no silent truncation.
//
// Differential oracle, no reference renderer: the same history is served once with OutputSize 0
// (unlimited) and once with every size s from 1 to (longest unlimited page + 3). With the limit, every
// request must either fail with an error or deliver exactly the unlimited page, which must be <= s.
// Sink pages (where pagination legitimately changes the page) are covered by walking a subset of the
// C02 configurations and checking size and well-formedness of every page.

func init() {
	register(&mc.Check{
		ID:    "C01",
		Level: "model_checking",
		Rule: "non-sink applications (two bounded values near their limits, invalid-input page = error prefix + catch template + menu, external-function error page, end node with a last loaded value) x environment content variants x all input histories up to depth d x EVERY output size from 1 to (longest unlimited page + 3), long-lived and persisted; " +
			"plus sink configurations (C02 family subset) x every output size walked page by page; oracle: len(out) <= size and out equals the page rendered without a limit (or the request fails); states = distinct (app, variant, history prefix, size) renders; non-trivial = renders within 3 bytes of the limit or failing for size",
		Assumptions: []string{"templates are literal text with {{.sym}} placeholders", "after the first request that fails under the limit the two runs are no longer compared (the sessions have legitimately diverged)"},
		Run:         c01Run,
		Replay:      c01Replay,
		MinItems:    50,
	})
}

type c01Witness struct {
	App     string   `json:"app"`
	Variant int      `json:"variant"`
	Mode    string   `json:"mode"`
	Inputs  []string `json:"inputs"`
	Size    uint32   `json:"output_size"`
	Sink    *c02Cfg  `json:"sink_config,omitempty"`
}

func constFunc(s string) app.Func {
	return func(e *app.Env, sym string, in []byte, l string) (resource.Result, error) {
		return resource.Result{Content: s}, nil
	}
}

var c01Catch = []codec.Ins{{Op: codec.MOUT, Sym: "back", Sel: "9"}, {Op: codec.HALT}, {Op: codec.INCMP, Sym: "_", Sel: "*"}}

type c01AppDef struct {
	name     string
	variants int
	build    func(v int) *app.App
	inputs   []string
	first    func(v int) resource.EntryFunc // optional WithFirst function
}

var c01Apps = []c01AppDef{
	{name: "firstterm", variants: 3, build: func(v int) *app.App {
		a := app.New("firstterm")
		a.Node("root", "start", codec.Ins{Op: codec.MOUT, Sym: "go", Sel: "1"}, codec.Ins{Op: codec.HALT}, codec.Ins{Op: codec.INCMP, Sym: ".", Sel: "1"})
		a.Node("_catch", "oops", c01Catch...)
		return a
	}, inputs: []string{"1", "zz"}, first: func(v int) resource.EntryFunc {
		// a gatekeeper: refuses service (TERMINATE) with a notice of varying length when the input is "zz"
		notice := []string{"no", "service is closed today", strings.Repeat("closed ", 12)}[v]
		return func(ctx context.Context, sym string, input []byte) (resource.Result, error) {
			if string(input) == "zz" {
				return resource.Result{Content: notice, FlagSet: []uint32{6}}, nil
			}
			return resource.Result{}, nil
		}
	}},
	{"vals", 8, c01ValsApp, []string{"1", "0", "zz", "a long junk input 0123456789", "z\u0436\u0436\u0436"}, nil},
	{"valsep", 4, func(v int) *app.App {
		a := c01ValsApp(v)
		a.Name = "valsep"
		a.MenusLang["nor"] = map[string]string{"m0": "en lengre etikett", "back": "tilbake til start"}
		a.Nodes["two"].TplLang = map[string]string{"nor": "t/nor {{.v1}}/{{.v2}} og litt til"}
		return a
	}, []string{"1", "0", "zz"}, nil},
	{"bigend", 2, func(v int) *app.App {
		// the last page of the session is larger than every page before it, and there is no exit value
		a := app.New("bigend")
		a.Node("root", "s", codec.Ins{Op: codec.MOUT, Sym: "g", Sel: "1"}, codec.Ins{Op: codec.HALT}, codec.Ins{Op: codec.INCMP, Sym: "fin", Sel: "1"})
		a.Node("fin", []string{"a rather long farewell page that needs room", "bye for now"}[v], codec.Ins{Op: codec.HALT})
		a.Node("_catch", "o", codec.Ins{Op: codec.HALT}, codec.Ins{Op: codec.INCMP, Sym: "_", Sel: "*"})
		return a
	}, []string{"1", "zz"}, nil},
	{"bigendval", 3, func(v int) *app.App {
		// the last page of the session is larger than every page before it AND the session ends with a value
		// (the last loaded one), which the engine appends to the final page
		a := app.New("bigendval")
		a.Node("root", "s", codec.Ins{Op: codec.MOUT, Sym: "g", Sel: "1"}, codec.Ins{Op: codec.HALT}, codec.Ins{Op: codec.INCMP, Sym: "fin", Sel: "1"})
		a.Node("fin", []string{"a rather long farewell page that needs room", "bye for now", "thank you, "}[v], codec.Ins{Op: codec.LOAD, Sym: "gv", N: 20}, codec.Ins{Op: codec.HALT})
		a.Node("_catch", "o", codec.Ins{Op: codec.HALT}, codec.Ins{Op: codec.INCMP, Sym: "_", Sel: "*"})
		a.Func("gv", constFunc([]string{"ok", "see you", "x"}[v]))
		return a
	}, []string{"1", "zz"}, nil},
	{"redisplay", 3, func(v int) *app.App {
		// a node that displays a second time after its HALT without any move in between (two display
		// segments; a taken CATCH . re-display as in examples/validate)
		val := []string{"ok", "a much longer value 0123456789", strings.Repeat("w", 50)}[v]
		a := app.New("redisplay")
		a.FlagCount = 1
		a.Node("root", "form {{.fld}}", codec.Ins{Op: codec.LOAD, Sym: "fld", N: 60}, codec.Ins{Op: codec.MAP, Sym: "fld"}, codec.Ins{Op: codec.MOUT, Sym: "send", Sel: "1"}, codec.Ins{Op: codec.HALT},
			codec.Ins{Op: codec.RELOAD, Sym: "fld"}, codec.Ins{Op: codec.MOUT, Sym: "send again", Sel: "1"}, codec.Ins{Op: codec.MOUT, Sym: "or give up", Sel: "2"}, codec.Ins{Op: codec.HALT},
			codec.Ins{Op: codec.INCMP, Sym: ".", Sel: "1"}, codec.Ins{Op: codec.INCMP, Sym: "vv", Sel: "2"})
		a.Node("vv", "check {{.fld}}", codec.Ins{Op: codec.MAP, Sym: "fld"}, codec.Ins{Op: codec.MOUT, Sym: "retry", Sel: "1"}, codec.Ins{Op: codec.HALT}, codec.Ins{Op: codec.RELOAD, Sym: "fld"}, codec.Ins{Op: codec.CATCH, Sym: ".", N: 8, Mode: false}, codec.Ins{Op: codec.INCMP, Sym: "_", Sel: "*"})
		a.Node("_catch", "oops", c01Catch...)
		a.Func("fld", func(e *app.Env, sym string, in []byte, l string) (resource.Result, error) {
			if e.Counts[sym] <= 1 {
				return resource.Result{Content: "-"}, nil
			}
			r := resource.Result{Content: val}
			if e.Counts[sym] >= 4 {
				r.FlagSet = []uint32{8} // the CATCH . loop ends
			}
			return r, nil
		})
		return a
	}, []string{"1", "2", "zz"}, nil},
	{"utf8", 2, func(v int) *app.App {
		// multi-byte text everywhere: the limit is in bytes, not characters
		a := app.New("utf8")
		a.Node("root", "\u043f\u0440\u0438\u0432\u0435\u0442 {{.nm}}", codec.Ins{Op: codec.LOAD, Sym: "nm", N: 40}, codec.Ins{Op: codec.MAP, Sym: "nm"}, codec.Ins{Op: codec.MOUT, Sym: "\u0434\u0430\u043b\u044c\u0448\u0435", Sel: "1"},
			codec.Ins{Op: codec.HALT}, codec.Ins{Op: codec.INCMP, Sym: "two", Sel: "1"})
		a.Node("two", "\u00e9\u00e8\u00ea {{.nm}}", codec.Ins{Op: codec.MAP, Sym: "nm"}, codec.Ins{Op: codec.MOUT, Sym: "\u043d\u0430\u0437\u0430\u0434", Sel: "0"}, codec.Ins{Op: codec.HALT}, codec.Ins{Op: codec.INCMP, Sym: "_", Sel: "0"})
		a.Node("_catch", "\u043e\u0439", c01Catch...)
		a.Func("nm", constFunc([]string{"\u0418\u0432\u0430\u043d", "\u65e5\u672c\u8a9e"}[v]))
		return a
	}, []string{"1", "0", "z\u0436"}, nil},
	{"end", 3, func(v int) *app.App {
		gv := []string{"", "gv", "lastvalue"}[v]
		a := app.New("end")
		a.Node("root", "start", codec.Ins{Op: codec.MOUT, Sym: "go", Sel: "1"}, codec.Ins{Op: codec.HALT}, codec.Ins{Op: codec.INCMP, Sym: "fin", Sel: "1"})
		a.Node("fin", "END", codec.Ins{Op: codec.LOAD, Sym: "gv", N: 0}, codec.Ins{Op: codec.HALT})
		a.Node("_catch", "oops", c01Catch...)
		a.Func("gv", constFunc(gv))
		return a
	}, []string{"1", "zz"}, nil},
	{"err", 2, func(v int) *app.App {
		a := app.New("err")
		a.Node("root", "start", codec.Ins{Op: codec.MOUT, Sym: "go", Sel: "1"}, codec.Ins{Op: codec.HALT}, codec.Ins{Op: codec.INCMP, Sym: "bad", Sel: "1"})
		a.Node("bad", "BAD", codec.Ins{Op: codec.LOAD, Sym: "boom", N: 0}, codec.Ins{Op: codec.HALT}, codec.Ins{Op: codec.INCMP, Sym: "_", Sel: "*"})
		a.Node("_catch", "oops", c01Catch...)
		a.Func("boom", func(e *app.Env, sym string, in []byte, l string) (resource.Result, error) {
			if v == 0 {
				return resource.Result{}, fmt.Errorf("boom")
			}
			return resource.Result{Status: 12345}, fmt.Errorf("boom")
		})
		return a
	}, []string{"1", "zz"}, nil},
}

func c01Session(a *app.App, mode string, size uint32) *app.Session {
	s := c01SessionPlain(a, mode, size)
	if d, ok := c01Def(a.Name); ok && d.first != nil {
		s.First = d.first(c01Variant[a])
	}
	return s
}

var c01Variant = map[*app.App]int{}

func c01SessionPlain(a *app.App, mode string, size uint32) *app.Session {
	sep, lng := "", ""
	if a.Name == "valsep" {
		sep, lng = " -- ", "nor" // long menu separator and translated (longer) labels
	}
	if mode == "persisted" {
		s := app.NewSession(a, engine.Config{SessionId: "s1", OutputSize: size, MenuSeparator: sep, Language: lng}, app.Persisted)
		s.Open = app.MemStore()
		s.FinishOnError = true
		return s
	}
	return app.NewSession(a, engine.Config{OutputSize: size, MenuSeparator: sep, Language: lng}, app.LongLived)
}

// c01Unlimited serves the history without a limit.
func c01Unlimited(d c01AppDef, variant int, mode string, inputs []string) []app.Resp {
	ua := d.build(variant)
	c01Variant[ua] = variant
	s := c01Session(ua, mode, 0)
	delete(c01Variant, ua)
	var out []app.Resp
	for _, in := range append([]string{""}, inputs...) {
		r := s.Request([]byte(in))
		out = append(out, r)
		if r.ExecErr != "" || r.FlushErr != "" || r.Panic != "" || !r.Cont {
			break
		}
	}
	return out
}

// c01ExitValues: the value a session of the app ends with (the last loaded one), per variant.
var c01ExitValues = map[string][]string{"bigendval": {"ok", "see you", "x"}, "end": {"", "gv", "lastvalue"}}

func c01Sized(d c01AppDef, variant int, mode string, inputs []string, size uint32, base []app.Resp, c *mc.Ctx) (sig, msg string, reqs int) {
	v2 := variant
	sa := d.build(variant)
	c01Variant[sa] = variant
	s := c01Session(sa, mode, size)
	delete(c01Variant, sa)
	all := append([]string{""}, inputs...)
	for k := range base {
		r := s.Request([]byte(all[k]))
		reqs++
		where := fmt.Sprintf("%s/%d %s size %d request %d input %q", d.name, variant, mode, size, k, all[k])
		if r.Panic != "" {
			return "panic", fmt.Sprintf("%s: panic %s", where, r.Panic), reqs
		}
		if len(r.Out) > int(size) {
			sg := "oversize-page"
			if !r.Cont && strings.HasPrefix(base[k].Out, r.Out) || (!r.Cont && r.Out == base[k].Out) {
				sg = "oversize-final-output"
			}
			return sg, fmt.Sprintf("%s: output is %d bytes: %q", where, len(r.Out), r.Out), reqs
		}
		if r.ExecErr != "" || r.FlushErr != "" {
			if c != nil && (base[k].ExecErr == "" && base[k].FlushErr == "") {
				c.Distinct("nontrivial", d.name, fmt.Sprint(variant), strings.Join(all[:k+1], "|"), fmt.Sprint(size))
				c.Count("renders_refused_for_size", 1)
			}
			return "", "", reqs
		}
		if base[k].ExecErr != "" || base[k].FlushErr != "" {
			return "", "", reqs
		}
		if !r.Cont && !base[k].Cont && r.Out != "" && len(r.Out) < len(base[k].Out) && strings.HasSuffix(base[k].Out, r.Out) && v2 < len(c01ExitValues[d.name]) && c01ExitValues[d.name][v2] == r.Out {
			// witness predicate: the session ended, and what was delivered is exactly the session's exit value (the
			// last loaded value) without the final page in front of it
			return "final-page-dropped-exit-value-only", fmt.Sprintf("%s: the final page does not fit and is dropped without an error; only the exit value %q is delivered (without a limit: %q)", where, r.Out, base[k].Out), reqs
		}
		if r.Out != base[k].Out {
			return "truncated-or-altered-page", fmt.Sprintf("%s: output %q differs from the page rendered without a limit %q", where, r.Out, base[k].Out), reqs
		}
		if r.Cont != base[k].Cont {
			return "continue-flag-differs", fmt.Sprintf("%s: cont=%v, without a limit cont=%v", where, r.Cont, base[k].Cont), reqs
		}
		if c != nil {
			c.Distinct("states", d.name, fmt.Sprint(variant), strings.Join(all[:k+1], "|"), fmt.Sprint(size))
			if int(size)-len(r.Out) <= 3 {
				c.Distinct("nontrivial", d.name, fmt.Sprint(variant), strings.Join(all[:k+1], "|"), fmt.Sprint(size))
			}
		}
	}
	return "", "", reqs
}

func c01Def(name string) (c01AppDef, bool) {
	for _, d := range c01Apps {
		if d.name == name {
			return d, true
		}
	}
	return c01AppDef{}, false
}

// c01Huge: output sizes around the 16-bit boundary with a page of 70000 bytes (a large static template, as a
// web front end might have): the page is delivered only where it fits.
func c01Huge(size uint32) (sig, msg string) {
	a := app.New("huge")
	a.Node("root", strings.Repeat("0123456789", 7000), codec.Ins{Op: codec.MOUT, Sym: "go", Sel: "1"}, codec.Ins{Op: codec.HALT}, codec.Ins{Op: codec.INCMP, Sym: ".", Sel: "1"})
	a.Node("_catch", "catch", codec.Ins{Op: codec.HALT}, codec.Ins{Op: codec.INCMP, Sym: "_", Sel: "*"})
	s := app.NewSession(a, engine.Config{OutputSize: size}, app.LongLived)
	r := s.Request([]byte(""))
	if r.Panic != "" {
		return "panic", fmt.Sprintf("output size %d, page of 70005 bytes: panic %s", size, r.Panic)
	}
	if len(r.Out) > int(size) {
		return "oversize-page", fmt.Sprintf("output size %d: a page of %d bytes is delivered", size, len(r.Out))
	}
	if size >= 70005 && (r.FlushErr != "" || len(r.Out) != 70005) {
		return "page-that-fits-refused", fmt.Sprintf("output size %d: the page of 70005 bytes is not delivered (%q, %d bytes)", size, r.FlushErr, len(r.Out))
	}
	return "", ""
}

var c01HugeSizes = []uint32{65535, 65536, 65537, 70004, 70005, 131072, 1 << 24, 1<<32 - 1}

func c01Replay(w json.RawMessage) (string, string) {
	var wit c01Witness
	if err := json.Unmarshal(w, &wit); err != nil {
		return "bad-witness", err.Error()
	}
	if wit.App == "huge" {
		return c01Huge(wit.Size)
	}
	if wit.Sink != nil {
		s, m, _ := c02Walk(*wit.Sink, nil)
		if s == "oversize-page" || s == "malformed-page" || s == "panic" {
			return s, m
		}
		return "", ""
	}
	d, ok := c01Def(wit.App)
	if !ok {
		return "bad-witness", "app"
	}
	base := c01Unlimited(d, wit.Variant, wit.Mode, wit.Inputs)
	s, m, _ := c01Sized(d, wit.Variant, wit.Mode, wit.Inputs, wit.Size, base, nil)
	return s, m
}

func c01Run(c *mc.Ctx) {
	if c.Mine() {
		for _, sz := range c01HugeSizes {
			c.Count("evaluations", 1)
			c.Count("sizes_at_the_16_bit_boundary", 1)
			if sig, msg := c01Huge(sz); sig != "" {
				c.Fail(sig, msg, c01Witness{App: "huge", Size: sz})
			}
		}
	}
	depth := 3
	modes := []string{"long-lived", "persisted"}
	if c.Thorough() {
		depth = 4
	}
	c.Note("history_depth", fmt.Sprint(depth))
	for _, d := range c01Apps {
		for v := 0; v < d.variants; v++ {
			for _, mode := range modes {
				// all histories of exactly `depth` inputs (shorter ones are prefixes)
				hist := []string{}
				var rec func()
				rec = func() {
					if len(hist) == depth {
						if !c.Mine() {
							return
						}
						base := c01Unlimited(d, v, mode, hist)
						maxLen := 0
						for _, r := range base {
							if len(r.Out) > maxLen {
								maxLen = len(r.Out)
							}
						}
						for sz := 1; sz <= maxLen+3; sz++ {
							sig, msg, reqs := c01Sized(d, v, mode, hist, uint32(sz), base, c)
							c.Count("evaluations", 1)
							c.Count("transitions", int64(reqs))
							if sig != "" {
								c.Fail(sig, msg, c01Witness{App: d.name, Variant: v, Mode: mode, Inputs: append([]string(nil), hist...), Size: uint32(sz)})
							}
						}
						if v == 0 && mode == "long-lived" && hist[0] == "1" && hist[1] == "zz" {
							var pages []string
							for _, r := range base {
								pages = append(pages, r.Out)
							}
							c.Sample(map[string]any{"app": d.name, "inputs": append([]string{""}, hist...), "unlimited_pages": pages, "sizes": fmt.Sprintf("1..%d", maxLen+3)})
						}
						return
					}
					for _, in := range d.inputs {
						hist = append(hist, in)
						rec()
						hist = hist[:len(hist)-1]
					}
				}
				rec()
			}
		}
	}
	// sink pages: a subset of the C02 family, every size
	rowsets := c02Contents(3, []int{0, 2, 5})
	if c.Thorough() {
		rowsets = c02Contents(4, []int{0, 1, 2, 5})
	}
	// rows that are longer than everything else on their page, also as the first row of a later page, with
	// and without ordinary menu entries (a page whose menu is empty is still measured)
	long := strings.Repeat("c", 20)
	nBase := len(rowsets)
	rowsets = append(rowsets, []string{"aa", "bb", long}, []string{"aa", long, "bb"}, []string{long, "aa"}, []string{"aa", long})
	type sinkVar struct {
		menu int
		sep  string
	}
	for ri, rows := range rowsets {
		if !c.Mine() {
			continue
		}
		vars := []sinkVar{{1, ""}}
		if ri >= nBase {
			vars = append(vars, sinkVar{0, ""}, sinkVar{0, " -> "})
		} else if len(rows) >= 2 {
			// a menu separator longer than the default: every line of the menu grows
			vars = append(vars, sinkVar{1, " -> "})
		}
		for _, sv := range vars {
			for _, tpl := range []int{0, 1} {
				for b := 0; b < 4; b++ {
					for _, mode := range modes {
						g := c02Cfg{Rows: rows, Tpl: tpl, Menu: sv.menu, Sep: sv.sep, Next: b&1 != 0, Prev: b&2 != 0, Mode: mode}
						for sz := 1; sz <= g.total()+3+2*len(sv.sep)+16; sz++ {
							g.Size = uint32(sz)
							sig, msg, reqs := c02Walk(g, func(pages int, vac bool) {
								for i := 0; i < pages; i++ {
									c.Distinct("states", "sink", fmt.Sprint(rows), fmt.Sprint(tpl, b, sz, i, sv))
								}
								if pages >= 2 {
									c.Distinct("nontrivial", "sink", fmt.Sprint(rows), fmt.Sprint(tpl, b, sz, sv))
								}
							})
							c.Count("evaluations", 1)
							c.Count("sink_walks", 1)
							c.Count("transitions", int64(reqs))
							if sig == "oversize-page" || sig == "malformed-page" || sig == "panic" {
								gg := g
								c.Fail(sig, msg, c01Witness{Sink: &gg})
							}
						}
					}
				}
			}
		}
		if c.TimeUp() {
			return
		}
	}
}

var c01ValsApp = func(v int) *app.App {
	v1 := []string{"", "x", "xyz", "\u0436\u00e9"}[v%4] // the last one: 2 characters, 4 bytes
	v2 := []string{"", "pq"}[v/4]
	a := app.New("vals")
	a.Node("root", "r {{.v1}}", codec.Ins{Op: codec.LOAD, Sym: "v1", N: 3}, codec.Ins{Op: codec.MAP, Sym: "v1"}, codec.Ins{Op: codec.MOUT, Sym: "m0", Sel: "1"},
		codec.Ins{Op: codec.HALT}, codec.Ins{Op: codec.INCMP, Sym: "two", Sel: "1"})
	a.Node("two", "t {{.v1}}/{{.v2}}", codec.Ins{Op: codec.LOAD, Sym: "v2", N: 2}, codec.Ins{Op: codec.MAP, Sym: "v1"}, codec.Ins{Op: codec.MAP, Sym: "v2"},
		codec.Ins{Op: codec.MOUT, Sym: "back", Sel: "0"}, codec.Ins{Op: codec.MOUT, Sym: "longer label", Sel: "00"}, codec.Ins{Op: codec.HALT}, codec.Ins{Op: codec.INCMP, Sym: "_", Sel: "0"})
	a.Node("_catch", "oops", c01Catch...)
	a.Func("v1", constFunc(v1)).Func("v2", constFunc(v2))
	return a
}
