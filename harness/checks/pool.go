package checks

import (
	"strings"

	"verif/codec"
)

// insPool returns the instruction pool shared by C14/C15: every opcode with boundary arguments.
func insPool(full bool) []codec.Ins {
	// "a%d" / "%s%%": a symbol is arbitrary bytes; a printf verb in it must come out of the disassembler verbatim
	syms := []string{"a", "foo", "a%d"}
	ints := []uint32{0, 1, 255, 256, 65535}
	if full {
		syms = []string{"a", "foo", "a_1", "a%d", "100%%", strings.Repeat("s", 254)}
		ints = []uint32{0, 1, 255, 256, 65535, 65536, 1<<24 - 1, 1 << 24, 1<<32 - 1}
	}
	var p []codec.Ins
	for _, s := range syms {
		p = append(p, codec.Ins{Op: codec.RELOAD, Sym: s}, codec.Ins{Op: codec.MAP, Sym: s}, codec.Ins{Op: codec.MOVE, Sym: s})
		for _, t := range []string{"1", "*", "sel", "%s"} {
			p = append(p, codec.Ins{Op: codec.INCMP, Sym: s, Sel: t})
		}
		p = append(p, codec.Ins{Op: codec.MOUT, Sym: s, Sel: "0"}, codec.Ins{Op: codec.MNEXT, Sym: s, Sel: "11"}, codec.Ins{Op: codec.MPREV, Sym: s, Sel: "22"})
	}
	for _, n := range ints {
		p = append(p, codec.Ins{Op: codec.LOAD, Sym: "foo", N: n})
		for _, m := range []bool{false, true} {
			p = append(p, codec.Ins{Op: codec.CROAK, N: n, Mode: m}, codec.Ins{Op: codec.CATCH, Sym: "foo", N: n, Mode: m})
		}
	}
	p = append(p, codec.Ins{Op: codec.HALT}, codec.Ins{Op: codec.MSINK})
	return p
}
