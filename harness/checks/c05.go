package checks

import (
	"encoding/json"
	"fmt"
	"strings"

	"git.defalsify.org/vise.git/engine"
	"git.defalsify.org/vise.git/resource"

	"verif/app"
	"verif/codec"
	"verif/mc"
	"verif/ref"
)

func refLang(c string) (string, bool) { return ref.ValidLang(c) }

// C05 — loaded symbols live exactly as long as their stack level.

func init() {
	register(&mc.Check{
		ID:    "C05",
		Level: "model_checking",
		Rule: "a generated family of applications of depth <=3 (LOAD/RELOAD/MAP of symbols s,t at every level, declared sizes {0,1,4,65535}, the same symbol loaded on different branches and depths) x all input histories up to depth d over descend/ascend/re-enter/rewind/repeat selectors x, at every external call, a choice among answers {v<k>, '', 'a\\nb', 5 bytes, 65536 bytes, 3 two-byte characters} with a deviation bound on non-default answers (stateless DFS with replay); " +
			"reference = documented LOAD/RELOAD/MAP/scope semantics (ref.VM) stepped in lockstep, compared after every request on the external-call log, the cache contents per level with limits, and the rendered text; states = distinct (app, position, cache contents) triples; non-trivial = histories that re-enter a level after leaving it",
		Assumptions: []string{"how a failing instruction is reported (plain error or catch node) is not constrained; the history ends there after checking that the value was neither stored nor shown", "RELOAD/MAP of a symbol that is not visible is outside the corpus", "declared sizes above 65535 are outside the quantifier"},
		Run:         c05Run,
		Replay:      c05Replay,
		MinItems:    100,
	})
}

type c05Spec struct {
	RootLoad int  `json:"root_load"` // index into c05Loads (0 = none)
	AaLoad   int  `json:"aa_load"`
	BbLoad   int  `json:"bb_load"`
	CcLoad   int  `json:"cc_load"`
	Reload   int  `json:"reload"`           // 0 none, 1 aa:RELOAD s, 2 bb:RELOAD s, 3 bb:RELOAD t, 4 root:RELOAD s
	RelLate  bool `json:"reload_after_map"` // RELOAD placed after the MAP lines of its node (same page) instead of before them
	// Leak: node bb does not MAP the symbols it inherits from its ancestors although its template mentions
	// them, and the session runs under an output size: the page must fail (a value is exposed to the
	// template only until the next move), not show a value mapped on an earlier node.
	Leak    bool   `json:"template_mentions_unmapped_symbol"`
	OutSz   uint32 `json:"output_size"`
	Mode    string `json:"mode"`
	CacheSz uint32 `json:"cache_size"`
}

type c05Load struct {
	Sym string
	N   uint32
}

var c05Loads = []c05Load{{}, {"ss", 4}, {"ss", 1}, {"ss", 0}, {"ss", 65535}, {"tt", 4}, {"tt", 0}}

type c05Witness struct {
	Spec    c05Spec `json:"spec"`
	Choices []int   `json:"choices"`
	Depth   int     `json:"depth"`
	// directed family: named application, mode/config, input history
	Directed string   `json:"directed_app,omitempty"`
	Opts     lsOpts   `json:"opts,omitempty"`
	Inputs   []string `json:"inputs,omitempty"`
}

// c05Directed: small named applications for situations the generated family does not contain.
func c05Directed(name string) *app.App {
	a := app.New(name)
	catch := func() {
		a.Node("_catch", "catch", codec.Ins{Op: codec.HALT}, codec.Ins{Op: codec.INCMP, Sym: "_", Sel: "*"})
	}
	switch name {
	case "catchmap":
		// a value mapped at the entry node, then a taken CATCH: the target's template must not see it
		a.FlagCount = 2
		a.Node("root", "root {{.xx}}", codec.Ins{Op: codec.LOAD, Sym: "xx", N: 8}, codec.Ins{Op: codec.MAP, Sym: "xx"}, codec.Ins{Op: codec.LOAD, Sym: "setf", N: 0},
			codec.Ins{Op: codec.CATCH, Sym: "other", N: 8, Mode: true}, codec.Ins{Op: codec.HALT}, codec.Ins{Op: codec.INCMP, Sym: "plain", Sel: "1"})
		a.Node("other", "other {{.xx}}", codec.Ins{Op: codec.HALT}, codec.Ins{Op: codec.INCMP, Sym: "_", Sel: "0"})
		a.Node("plain", "plain", codec.Ins{Op: codec.HALT}, codec.Ins{Op: codec.INCMP, Sym: "_", Sel: "0"})
		a.Func("xx", constFunc("xval"))
		a.Func("setf", func(e *app.Env, sym string, in []byte, l string) (resource.Result, error) {
			return resource.Result{FlagSet: []uint32{8}}, nil
		})
		a.WithInputs("1", "0")
	case "catchskip":
		// menu entries and a mapping before a CATCH that is NOT taken: it "otherwise does nothing"
		a.FlagCount = 2
		a.Node("root", "root {{.xx}}", codec.Ins{Op: codec.LOAD, Sym: "xx", N: 8}, codec.Ins{Op: codec.MAP, Sym: "xx"}, codec.Ins{Op: codec.MOUT, Sym: "one", Sel: "1"},
			codec.Ins{Op: codec.CATCH, Sym: "other", N: 8, Mode: true}, codec.Ins{Op: codec.MOUT, Sym: "two", Sel: "2"}, codec.Ins{Op: codec.HALT}, codec.Ins{Op: codec.INCMP, Sym: "other", Sel: "1"}, codec.Ins{Op: codec.INCMP, Sym: ".", Sel: "2"})
		a.Node("other", "other", codec.Ins{Op: codec.HALT}, codec.Ins{Op: codec.INCMP, Sym: "_", Sel: "0"})
		a.Func("xx", constFunc("xval"))
		a.WithInputs("1", "2", "0")
	case "sinkreuse":
		// the same symbol is a sink (size 0) in one node and an ordinary sized value in another
		a.Node("root", "root", codec.Ins{Op: codec.MOUT, Sym: "a", Sel: "1"}, codec.Ins{Op: codec.MOUT, Sym: "b", Sel: "2"}, codec.Ins{Op: codec.HALT},
			codec.Ins{Op: codec.INCMP, Sym: "aaa", Sel: "1"}, codec.Ins{Op: codec.INCMP, Sym: "bbb", Sel: "2"})
		a.Node("aaa", "A {{.foo}}", codec.Ins{Op: codec.LOAD, Sym: "foo", N: 0}, codec.Ins{Op: codec.MAP, Sym: "foo"}, codec.Ins{Op: codec.MOUT, Sym: "back", Sel: "0"}, codec.Ins{Op: codec.HALT},
			codec.Ins{Op: codec.INCMP, Sym: "_", Sel: "0"})
		a.Node("bbb", "B {{.foo}}", codec.Ins{Op: codec.LOAD, Sym: "foo", N: 40}, codec.Ins{Op: codec.MAP, Sym: "foo"}, codec.Ins{Op: codec.MOUT, Sym: "back", Sel: "0"}, codec.Ins{Op: codec.HALT},
			codec.Ins{Op: codec.INCMP, Sym: "_", Sel: "0"})
		a.Func("foo", constFunc("one\ntwo\nthree"))
		a.WithInputs("1", "2", "0")
	case "lastleft":
		// a value loaded below the entry node, the level left again, then the session ends one level up
		a.Node("root", "top", codec.Ins{Op: codec.MOUT, Sym: "in", Sel: "1"}, codec.Ins{Op: codec.MOUT, Sym: "quit", Sel: "2"}, codec.Ins{Op: codec.HALT},
			codec.Ins{Op: codec.INCMP, Sym: "cc", Sel: "1"}, codec.Ins{Op: codec.INCMP, Sym: "fin", Sel: "2"})
		a.Node("cc", "cc {{.cv}}", codec.Ins{Op: codec.LOAD, Sym: "cv", N: 20}, codec.Ins{Op: codec.MAP, Sym: "cv"}, codec.Ins{Op: codec.MOUT, Sym: "back", Sel: "0"}, codec.Ins{Op: codec.MOUT, Sym: "quit", Sel: "2"}, codec.Ins{Op: codec.HALT},
			codec.Ins{Op: codec.INCMP, Sym: "_", Sel: "0"}, codec.Ins{Op: codec.INCMP, Sym: "fin", Sel: "2"})
		a.Node("fin", "bye", codec.Ins{Op: codec.HALT})
		a.Func("cv", constFunc("good day"))
		a.WithInputs("1", "0", "2")
	}
	catch()
	return a
}

var c05DirectedNames = []string{"catchmap", "catchskip", "sinkreuse", "lastleft"}

var c05Answers = []string{"", "", "a\nb", "12345", strings.Repeat("x", 65536), "\u00e9\u00e9\u00e9"} // index 0 replaced by "v<k>"; the last one: 3 characters, 6 bytes - a limit counts bytes

func c05Func(x *mc.Chooser) app.Func {
	return func(e *app.Env, sym string, in []byte, l string) (resource.Result, error) {
		k := e.Counts[sym]
		key := fmt.Sprintf("ans:%s:%d", sym, k)
		if v, ok := e.Vars[key]; ok {
			return resource.Result{Content: v}, nil
		}
		alt := e.Pick(key, len(c05Answers))
		v := c05Answers[alt]
		if alt == 0 {
			v = fmt.Sprintf("%s%d", sym[:1], k%10)
		}
		e.Vars[key] = v
		return resource.Result{Content: v}, nil
	}
}

// static visibility along the chain, to keep MAP/RELOAD well-formed
func c05App(sp c05Spec) (*app.App, bool) {
	a := app.New("loader")
	loads := map[string]c05Load{"root": c05Loads[sp.RootLoad], "aa": c05Loads[sp.AaLoad], "bb": c05Loads[sp.BbLoad], "cc": c05Loads[sp.CcLoad]}
	chain := map[string][]string{"root": {"root"}, "aa": {"root", "aa"}, "bb": {"root", "aa", "bb"}, "cc": {"root", "cc"}}
	routes := map[string][]codec.Ins{
		"root": {{Op: codec.INCMP, Sym: "aa", Sel: "1"}, {Op: codec.INCMP, Sym: "cc", Sel: "2"}, {Op: codec.INCMP, Sym: ".", Sel: "5"}},
		"aa":   {{Op: codec.INCMP, Sym: "bb", Sel: "1"}, {Op: codec.INCMP, Sym: "_", Sel: "0"}, {Op: codec.INCMP, Sym: ".", Sel: "5"}},
		"bb":   {{Op: codec.INCMP, Sym: "_", Sel: "0"}, {Op: codec.INCMP, Sym: "^", Sel: "9"}, {Op: codec.INCMP, Sym: ".", Sel: "5"}},
		"cc":   {{Op: codec.INCMP, Sym: "_", Sel: "0"}, {Op: codec.INCMP, Sym: ".", Sel: "5"}},
	}
	reloadAt := map[int][2]string{1: {"aa", "ss"}, 2: {"bb", "ss"}, 3: {"bb", "tt"}, 4: {"root", "ss"}}
	for _, n := range []string{"root", "aa", "bb", "cc"} {
		vis := map[string]uint32{}
		order := []string{}
		for _, anc := range chain[n] {
			if l := loads[anc]; l.Sym != "" {
				if _, ok := vis[l.Sym]; !ok {
					vis[l.Sym] = l.N
					order = append(order, l.Sym)
				}
			}
		}
		var code []codec.Ins
		if l := loads[n]; l.Sym != "" {
			code = append(code, codec.Ins{Op: codec.LOAD, Sym: l.Sym, N: l.N})
		}
		var late []codec.Ins
		if r, ok := reloadAt[sp.Reload]; ok && r[0] == n {
			if _, v := vis[r[1]]; !v {
				return nil, false
			}
			if sp.RelLate {
				late = append(late, codec.Ins{Op: codec.RELOAD, Sym: r[1]})
			} else {
				code = append(code, codec.Ins{Op: codec.RELOAD, Sym: r[1]})
			}
		}
		tpl := n + ":"
		sinks := 0
		for _, s := range order {
			if vis[s] == 0 {
				sinks++
			}
		}
		if sinks > 1 {
			return nil, false // two sinks on one page: not a well-formed page
		}
		for _, s := range order {
			own := loads[n].Sym == s
			if !(sp.Leak && n == "bb" && !own) {
				code = append(code, codec.Ins{Op: codec.MAP, Sym: s})
			}
			tpl += " " + s + "={{." + s + "}}"
		}
		code = append(code, late...)
		code = append(code, codec.Ins{Op: codec.HALT})
		code = append(code, routes[n]...)
		a.Node(n, tpl, code...)
	}
	a.Node("_catch", "catch", codec.Ins{Op: codec.HALT}, codec.Ins{Op: codec.INCMP, Sym: "_", Sel: "*"})
	a.WithInputs("1", "0", "2", "5", "9")
	return a, true
}

func c05Specs(thorough bool) []c05Spec {
	var out []c05Spec
	seen := map[string]bool{}
	modes := []string{"long-lived", "persisted"}
	for _, rl := range []int{0, 1, 3} {
		for _, al := range []int{0, 1, 2, 5, 6} {
			for _, bl := range []int{0, 1, 4, 3, 5} {
				for _, cl := range []int{0, 2} {
					for rel := 0; rel <= 4; rel++ {
						if !thorough && (rl+al+bl+cl+rel)%2 == 1 {
							// quick tier: every second member of the family (deterministic)
							continue
						}
						sp := c05Spec{RootLoad: rl, AaLoad: al, BbLoad: bl, CcLoad: cl, Reload: rel}
						if _, ok := c05App(sp); !ok {
							continue
						}
						k := fmt.Sprint(sp)
						if seen[k] {
							continue
						}
						seen[k] = true
						for _, m := range modes {
							sp.Mode = m
							out = append(out, sp)
						}
						if rel != 0 && (thorough || (rl+al+bl)%3 == 0) {
							// the same application with the RELOAD after the MAP lines (value must be refreshed on the page)
							sp.RelLate = true
							for _, m := range modes {
								sp.Mode = m
								out = append(out, sp)
							}
						}
					}
				}
			}
		}
	}
	// members whose deepest node mentions an inherited symbol without mapping it, under an output size
	for _, sp := range []c05Spec{{RootLoad: 1, AaLoad: 0, BbLoad: 6, Leak: true, OutSz: 120}, {RootLoad: 1, AaLoad: 5, BbLoad: 3, Leak: true, OutSz: 120}, {RootLoad: 3, AaLoad: 5, BbLoad: 0, Leak: true, OutSz: 120}, {RootLoad: 1, AaLoad: 5, BbLoad: 4, Leak: true}} {
		if _, ok := c05App(sp); !ok {
			continue
		}
		for _, m := range modes {
			sp.Mode = m
			out = append(out, sp)
		}
	}
	// cache-capacity variants on a few members
	for _, sp := range []c05Spec{{RootLoad: 1, AaLoad: 5, BbLoad: 4, Reload: 2}, {RootLoad: 3, AaLoad: 5, BbLoad: 0, Reload: 1}} {
		for _, m := range modes {
			sp.Mode, sp.CacheSz = m, 6
			out = append(out, sp)
		}
	}
	return out
}

// c05Exec runs one execution (one choice vector) and compares with the reference after every request.
func c05Exec(sp c05Spec, depth int, x *mc.Chooser, c *mc.Ctx) (sig, msg string, reqs int) {
	a, _ := c05App(sp)
	f := c05Func(x)
	a.Func("ss", f).Func("tt", f)
	cfg := engine.Config{CacheSize: sp.CacheSz, OutputSize: sp.OutSz}
	s := newSess(a, sp.Mode, cfg)
	rv := newRef(a, sp.Mode, cfg)
	// both environments share the answer table so that the k-th call of a symbol gets the same answer
	answers := map[string]int{}
	pick := func(label string, n int) int {
		if v, ok := answers[label]; ok {
			return v
		}
		v := x.Choose(n, true, label)
		answers[label] = v
		return v
	}
	s.Env.Answer, rv.Env.Answer = pick, pick
	left := map[string]bool{} // levels left at least once
	reentered := false
	inputs := []string{""}
	for k := 0; k <= depth; k++ {
		in := ""
		if k > 0 {
			in = a.Inputs[x.Choose(len(a.Inputs), false, fmt.Sprintf("input%d", k))]
			inputs = append(inputs, in)
		}
		before := rv.Nav.Path()
		want := rv.Request([]byte(in))
		got := s.Request([]byte(in))
		reqs++
		where := fmt.Sprintf("%s request %d inputs %q (at %s)", sp.Mode, k, inputs, before)
		if got.Panic != "" {
			return "panic", fmt.Sprintf("%s: panic %s", where, got.Panic), reqs
		}
		if want.Undefined {
			return "", "", reqs
		}
		if want.ErrOrCatch {
			// the failing value must be neither stored nor shown
			top := ""
			if s.St != nil && len(s.St.ExecPath) > 0 {
				top = s.St.ExecPath[len(s.St.ExecPath)-1]
			}
			if got.ExecErr == "" && top != "_catch" {
				return "oversize-result-accepted", fmt.Sprintf("%s: an external result that must be refused was accepted: cache %s output %q", where, implCacheKey(s.Ca), got.Out), reqs
			}
			if len(got.Out) > 1000 || strings.Contains(got.Out, "12345") {
				return "oversize-result-shown", fmt.Sprintf("%s: refused value appears in the output", where), reqs
			}
			if c != nil {
				c.Count("histories_ended_by_refused_value", 1)
			}
			return "", "", reqs
		}
		if !sameStrings(funcCalls(got.Calls), want.Calls) {
			return "call-log-differs", fmt.Sprintf("%s: external calls %v, documented semantics give %v (ref cache %s)", where, funcCalls(got.Calls), want.Calls, rv.CacheKey()), reqs
		}
		if want.Err != (got.ExecErr != "") {
			return "error-differs", fmt.Sprintf("%s: exec error %q, reference expects error=%v", where, got.ExecErr, want.Err), reqs
		}
		if want.Err {
			continue
		}
		if ik := implCacheKey(s.Ca); ik != rv.CacheKey() {
			return "cache-differs", fmt.Sprintf("%s: cache is %s, documented semantics give %s", where, ik, rv.CacheKey()), reqs
		}
		if strings.Join(s.St.ExecPath, "/") != rv.Nav.Path() {
			return "position-differs", fmt.Sprintf("%s: at %s, reference at %s", where, strings.Join(s.St.ExecPath, "/"), rv.Nav.Path()), reqs
		}
		if want.OutKnown {
			if want.FlushErr != (got.FlushErr != "") {
				return "render-error-differs", fmt.Sprintf("%s: flush error %q, reference expects error=%v", where, got.FlushErr, want.FlushErr), reqs
			}
			if !want.FlushErr && got.Out != want.Out {
				return "output-differs", fmt.Sprintf("%s: output %q, documented semantics give %q", where, short(got.Out), short(want.Out)), reqs
			}
		}
		if got.Cont != want.Cont {
			return "continue-differs", fmt.Sprintf("%s: cont=%v, reference %v", where, got.Cont, want.Cont), reqs
		}
		if c != nil {
			pos := rv.Nav.Path()
			c.Distinct("states", fmt.Sprint(sp), pos, rv.CacheKey())
			if left[pos] {
				reentered = true
			}
			if strings.HasPrefix(before, pos) && before != pos {
				left[before] = true
			}
		}
		if got.FlushErr != "" && sp.Mode == "long-lived" {
			break
		}
	}
	if c != nil && reentered {
		c.Distinct("nontrivial", fmt.Sprint(sp), strings.Join(inputs, ","), fmt.Sprint(x.Choices))
		c.Count("histories_reentering_a_level", 1)
	}
	return "", "", reqs
}

func short(s string) string {
	if len(s) > 120 {
		return fmt.Sprintf("%s...(%d bytes)", s[:60], len(s))
	}
	return s
}

func c05Replay(w json.RawMessage) (string, string) {
	var wit c05Witness
	if err := json.Unmarshal(w, &wit); err != nil {
		return "bad-witness", err.Error()
	}
	if wit.Directed != "" {
		s, m, _ := lockstep(c05Directed(wit.Directed), wit.Opts, wit.Inputs, nil)
		return s, m
	}
	var sig, msg string
	mc.Replay(wit.Choices, func(x *mc.Chooser) { sig, msg, _ = c05Exec(wit.Spec, wit.Depth, x, nil) })
	return sig, msg
}

func c05Run(c *mc.Ctx) {
	// directed family: all histories of depth 4 (5 thorough), long-lived and persisted, with and without an output size
	dd := 4
	if c.Thorough() {
		dd = 5
	}
	for _, name := range c05DirectedNames {
		for _, o := range []lsOpts{{Mode: "long-lived"}, {Mode: "persisted", Backend: "mem"}, {Mode: "long-lived", Cfg: engine.Config{OutputSize: 100}}, {Mode: "persisted", Backend: "mem", Cfg: engine.Config{OutputSize: 100}}} {
			if !c.Mine() {
				continue
			}
			a := c05Directed(name)
			histories(a.Inputs, dd, func(h []string) {
				h = append([]string{""}, h...)
				sig, msg, reqs := lockstep(a, o, h, func(k int, rv *ref.VM, got app.Resp, want ref.Resp) {
					c.Distinct("states", name, rv.Nav.Path(), rv.CacheKey())
				})
				c.Count("evaluations", 1)
				c.Count("directed_histories", 1)
				c.Count("transitions", int64(reqs))
				if sig != "" {
					c.Fail(sig, msg, c05Witness{Directed: name, Opts: o, Inputs: h})
				}
			})
		}
	}
	type bound struct{ depth, dev int }
	bounds := []bound{{4, 0}, {3, 1}}
	if c.Thorough() {
		bounds = []bound{{5, 0}, {4, 1}, {3, 2}}
	}
	specs := c05Specs(c.Thorough())
	c.Note("applications", fmt.Sprint(len(specs)))
	c.Note("bounds_depth_deviations", fmt.Sprint(bounds))
	for si, sp := range specs {
		for _, bd := range bounds {
			if bd.dev >= 2 && si%3 != 0 {
				continue // two non-default answers per execution: every third member of the family
			}
			if !c.Mine() {
				continue
			}
			sp, bd := sp, bd
			mc.Explore(nil, bd.dev, c.TimeUp, func(x *mc.Chooser) {
				sig, msg, reqs := c05Exec(sp, bd.depth, x, c)
				c.Count("evaluations", 1)
				c.Count("transitions", int64(reqs))
				if sig != "" {
					c.Fail(sig, msg, c05Witness{Spec: sp, Choices: append([]int(nil), x.Choices...), Depth: bd.depth})
				}
			})
			if si%97 == 3 {
				a, _ := c05App(sp)
				c.Sample(map[string]any{"app": a.Describe(), "mode": sp.Mode, "histories": fmt.Sprintf("all of depth %d over %v with <=%d non-default external answers", bd.depth, a.Inputs, bd.dev)})
			}
			if c.TimeUp() {
				return
			}
		}
	}
}
