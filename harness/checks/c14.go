package checks

import (
	"bytes"
	"encoding/binary"
	"encoding/hex"
	"encoding/json"
	"fmt"
	"strings"

	"git.defalsify.org/vise.git/asm"
	"git.defalsify.org/vise.git/vm"

	"verif/codec"
	"verif/mc"
)

// C14 — encode/decode are exact inverses: exhaustive sweeps of the argument domains.

func init() {
	register(&mc.Check{
		ID:    "C14",
		Level: "exploration",
		Rule: "exhaustive sweeps: (1) every uint32 (thorough) / boundary windows (quick) through the assembler's integer encoder, the harness encoder and vm.ParseLoad/ParseCroak/ParseCatch; (2) every symbol length 1..255 for each string-carrying opcode and argument position through vm.NewLine, the assembler's string encoder and the harness encoder; " +
			"(3) all instruction sequences of length <=3 over the boundary-argument pool, decoded instruction by instruction with the vm.Parse* functions and listed with ToString; a case is non-trivial when it crosses a width boundary or holds >=2 instructions; distinct = (kind, width/length class, opcode tuple)",
		Assumptions: []string{"ToString's text is compared with the harness's canonical listing, not re-assembled (that is C16)"},
		Run:         c14Run,
		Replay:      c14Replay,
		MinItems:    100,
	})
}

type c14Witness struct {
	Kind string      `json:"kind"` // int | sym | prog
	N    uint32      `json:"n,omitempty"`
	Op   uint16      `json:"op,omitempty"`
	Len  int         `json:"len,omitempty"`
	Pos  int         `json:"pos,omitempty"`
	Prog []codec.Ins `json:"prog,omitempty"`
}

func guardSig(sig, msg *string, what string) {
	if r := recover(); r != nil {
		*sig = "panic-" + what
		*msg = fmt.Sprintf("%s panicked: %v", what, r)
	}
}

// c14Int checks one integer value through every encoder/decoder pair.
func c14Int(n uint32, withText bool) (sig, msg string) {
	defer guardSig(&sig, &msg, "int")
	want := codec.Append(nil, codec.Ins{Op: codec.LOAD, Sym: "s", N: n})[4:] // width + bytes
	var buf bytes.Buffer
	_, err := asm.VerifWriteSize(&buf, n)
	if err != nil {
		return "asm-int-encode-error", fmt.Sprintf("assembler integer encoder rejects %d: %v", n, err)
	}
	got := buf.Bytes()
	if !bytes.Equal(got, want) {
		return "asm-int-encoding-differs", fmt.Sprintf("assembler encodes %d as %x, format says %x", n, got, want)
	}
	// decode: LOAD argument
	tail := []byte{0x00, 0x07}
	arg := append(append([]byte{1, 's'}, got...), tail...)
	s, v, rest, err := vm.ParseLoad(arg)
	if err != nil || s != "s" || v != n || !bytes.Equal(rest, tail) {
		return "load-int-roundtrip", fmt.Sprintf("ParseLoad(%x) = (%q,%d,rest %x,%v), encoded %d", arg, s, v, rest, err, n)
	}
	arg2 := append(append([]byte{}, got...), 1, 0x00, 0x07)
	v2, m2, rest2, err := vm.ParseCroak(arg2)
	if err != nil || v2 != n || !m2 || !bytes.Equal(rest2, tail) {
		return "croak-int-roundtrip", fmt.Sprintf("ParseCroak(%x) = (%d,%v,rest %x,%v), encoded %d", arg2, v2, m2, rest2, err, n)
	}
	if withText {
		// the same value through the assembler's text front end (what an author writes)
		var tb bytes.Buffer
		src := fmt.Sprintf("LOAD s %d\nCROAK %d 1\n", n, n)
		if _, err := asm.Parse(src, &tb); err != nil {
			return "asm-text-int-rejected", fmt.Sprintf("asm.Parse(%q) fails: %v", src, err)
		}
		wantText := codec.Encode([]codec.Ins{{Op: codec.LOAD, Sym: "s", N: n}, {Op: codec.CROAK, N: n, Mode: true}})
		if !bytes.Equal(tb.Bytes(), wantText) {
			return "asm-text-int-encoding-differs", fmt.Sprintf("asm.Parse(%q) = %x, format says %x", src, tb.Bytes(), wantText)
		}
		arg3 := append(append(append([]byte{1, 's'}, got...), 0), tail...)
		s3, v3, m3, rest3, err := vm.ParseCatch(arg3)
		if err != nil || s3 != "s" || v3 != n || m3 || !bytes.Equal(rest3, tail) {
			return "catch-int-roundtrip", fmt.Sprintf("ParseCatch(%x) = (%q,%d,%v,rest %x,%v), encoded %d", arg3, s3, v3, m3, rest3, err, n)
		}
		p := []codec.Ins{{Op: codec.LOAD, Sym: "s", N: n}, {Op: codec.CROAK, N: n, Mode: true}, {Op: codec.CATCH, Sym: "s", N: n}}
		txt, err := vm.NewParseHandler().WithDefaultHandlers().ToString(codec.Encode(p))
		if err != nil || txt != codec.Listing(p) {
			return "int-listing", fmt.Sprintf("ToString lists %q (%v), want %q", txt, err, codec.Listing(p))
		}
	}
	return "", ""
}

func mkSym(l int) string {
	var sb strings.Builder
	for i := 0; i < l; i++ {
		sb.WriteByte("abcdefghijklmnopqrstuvwxyz"[i%26])
	}
	return sb.String()
}

func newLineFor(i codec.Ins) []byte {
	intBytes := func(n uint32) []byte {
		var t [4]byte
		binary.BigEndian.PutUint32(t[:], n)
		return t[4-codec.IntWidth(n):]
	}
	mode := []uint8{0}
	if i.Mode {
		mode = []uint8{1}
	}
	switch i.Op {
	case codec.CATCH:
		return vm.NewLine(nil, i.Op, []string{i.Sym}, intBytes(i.N), mode)
	case codec.CROAK:
		return vm.NewLine(nil, i.Op, nil, intBytes(i.N), mode)
	case codec.LOAD:
		return vm.NewLine(nil, i.Op, []string{i.Sym}, intBytes(i.N), nil)
	case codec.RELOAD, codec.MAP, codec.MOVE:
		return vm.NewLine(nil, i.Op, []string{i.Sym}, nil, nil)
	case codec.INCMP, codec.MOUT, codec.MNEXT, codec.MPREV:
		return vm.NewLine(nil, i.Op, []string{i.Sym, i.Sel}, nil, nil)
	}
	return vm.NewLine(nil, i.Op, nil, nil, nil)
}

// decodeOne decodes one instruction from b with the vm's own exported parse functions.
func decodeOne(b []byte) (codec.Ins, []byte, error) {
	op, b, err := vm.ParseOp(b)
	if err != nil {
		return codec.Ins{}, b, err
	}
	in := codec.Ins{Op: uint16(op)}
	switch uint16(op) {
	case codec.CATCH:
		in.Sym, in.N, in.Mode, b, err = vm.ParseCatch(b)
	case codec.CROAK:
		in.N, in.Mode, b, err = vm.ParseCroak(b)
	case codec.LOAD:
		in.Sym, in.N, b, err = vm.ParseLoad(b)
	case codec.RELOAD:
		in.Sym, b, err = vm.ParseReload(b)
	case codec.MAP:
		in.Sym, b, err = vm.ParseMap(b)
	case codec.MOVE:
		in.Sym, b, err = vm.ParseMove(b)
	case codec.HALT:
		b, err = vm.ParseHalt(b)
	case codec.MSINK:
		b, err = vm.ParseMSink(b)
	case codec.INCMP:
		in.Sym, in.Sel, b, err = vm.ParseInCmp(b)
	case codec.MOUT:
		in.Sym, in.Sel, b, err = vm.ParseMOut(b)
	case codec.MNEXT:
		in.Sym, in.Sel, b, err = vm.ParseMNext(b)
	case codec.MPREV:
		in.Sym, in.Sel, b, err = vm.ParseMPrev(b)
	default:
		err = fmt.Errorf("opcode %d", op)
	}
	return in, b, err
}

// c14Prog checks one program: the three encoders agree, decoding gives the same instructions and
// consumes exactly each instruction's bytes, the disassembler lists the same instructions.
func c14Prog(p []codec.Ins) (sig, msg string) {
	defer guardSig(&sig, &msg, "prog")
	enc := codec.Encode(p)
	var nl []byte
	for _, i := range p {
		nl = append(nl, newLineFor(i)...)
	}
	if !bytes.Equal(nl, enc) {
		return "newline-encoding-differs", fmt.Sprintf("vm.NewLine gives %x, format says %x for %q", nl, enc, codec.Listing(p))
	}
	b := enc
	off := 0
	d := codec.Decode(enc)
	if d.Verdict != codec.Valid || len(d.Prog) != len(p) {
		return "harness-codec-self-check", "harness decoder does not invert harness encoder"
	}
	for k, want := range p {
		got, rest, err := decodeOne(b)
		if err != nil {
			return "decode-error", fmt.Sprintf("instruction %d (%s) of %x fails to decode: %v", k, want, enc, err)
		}
		if got != want {
			return "decode-args-differ", fmt.Sprintf("instruction %d of %x decodes as %q, encoded %q", k, enc, got, want)
		}
		off += d.Lens[k]
		if !bytes.Equal(rest, enc[off:]) {
			return "decode-consumes-wrong-length", fmt.Sprintf("after instruction %d (%s) of %x the decoder is left with %x, the following instructions are %x", k, want, enc, rest, enc[off:])
		}
		b = rest
	}
	txt, err := vm.NewParseHandler().WithDefaultHandlers().ToString(enc)
	if err != nil {
		return "disasm-error", fmt.Sprintf("ToString(%x) fails: %v (program %q)", enc, err, codec.Listing(p))
	}
	if txt != codec.Listing(p) {
		return "disasm-listing-differs", fmt.Sprintf("ToString(%x) lists %q, encoded %q", enc, txt, codec.Listing(p))
	}
	return "", ""
}

var c14SymOps = []uint16{codec.CATCH, codec.LOAD, codec.RELOAD, codec.MAP, codec.MOVE, codec.INCMP, codec.MOUT, codec.MNEXT, codec.MPREV}

func c14SymIns(op uint16, l, pos int) (codec.Ins, bool) {
	s := mkSym(l)
	switch op {
	case codec.CATCH:
		return codec.Ins{Op: op, Sym: s, N: 9, Mode: true}, pos == 0
	case codec.LOAD:
		return codec.Ins{Op: op, Sym: s, N: 300}, pos == 0
	case codec.RELOAD, codec.MAP, codec.MOVE:
		return codec.Ins{Op: op, Sym: s}, pos == 0
	}
	if pos == 0 {
		return codec.Ins{Op: op, Sym: s, Sel: "1"}, true
	}
	return codec.Ins{Op: op, Sym: "foo", Sel: s}, true
}

func c14Sym(op uint16, l, pos int) (sig, msg string) {
	defer guardSig(&sig, &msg, "sym")
	in, ok := c14SymIns(op, l, pos)
	if !ok {
		return "", ""
	}
	s := mkSym(l)
	var buf bytes.Buffer
	if _, err := asm.VerifWriteSym(&buf, s); err != nil {
		return "asm-sym-encode-error", fmt.Sprintf("assembler string encoder rejects a %d-byte symbol: %v", l, err)
	}
	want := append([]byte{byte(l)}, s...)
	if !bytes.Equal(buf.Bytes(), want) {
		return "asm-sym-encoding-differs", fmt.Sprintf("assembler encodes a %d-byte symbol as %x.., format says %x..", l, buf.Bytes()[:2], want[:2])
	}
	// in a two-instruction program so that "consumes exactly its own bytes" is observable
	return c14Prog([]codec.Ins{in, {Op: codec.HALT}, in})
}

// c14Forms: the integer argument of vm.NewLine is a byte string; every spelling of a value - minimal,
// zero-padded, and the empty string for 0 (what big.Int.Bytes() gives) - must come back as that value
// from the vm's own parser, with the following instruction untouched.
var c14Forms = [][]byte{{}, {0}, {0, 0}, {5}, {0, 5}, {0, 0, 0, 7}, {1, 0}, {0, 1, 0}, {255, 255, 255, 255}}

func c14Form(op uint16, fi int) (sig, msg string) {
	defer guardSig(&sig, &msg, "form")
	f := c14Forms[fi]
	var want uint32
	for _, b := range f {
		want = want<<8 | uint32(b)
	}
	tail := codec.Encode([]codec.Ins{{Op: codec.LOAD, Sym: "next", N: 3}, {Op: codec.HALT}})
	var line []byte
	switch op {
	case codec.LOAD:
		line = vm.NewLine(nil, op, []string{"s"}, f, nil)
	case codec.CROAK:
		line = vm.NewLine(nil, op, nil, f, []uint8{1})
	case codec.CATCH:
		line = vm.NewLine(nil, op, []string{"s"}, f, []uint8{1})
	}
	b := append(append([]byte{}, line...), tail...)
	gotOp, rest, err := vm.ParseOp(b)
	if err != nil || uint16(gotOp) != op {
		return "newline-form-roundtrip", fmt.Sprintf("NewLine(op %d, integer bytes %x) = %x: opcode reads back as %d (%v)", op, f, line, gotOp, err)
	}
	var v uint32
	var sym string
	mode := true
	switch op {
	case codec.LOAD:
		sym, v, rest, err = vm.ParseLoad(rest)
	case codec.CROAK:
		v, mode, rest, err = vm.ParseCroak(rest)
		sym = "s"
	case codec.CATCH:
		sym, v, mode, rest, err = vm.ParseCatch(rest)
	}
	if err != nil || v != want || sym != "s" || !mode || !bytes.Equal(rest, tail) {
		return "newline-form-roundtrip", fmt.Sprintf("NewLine(op %d, integer bytes %x) = %x reads back as (sym %q, value %d, mode %v, %v) with %x left; written: value %d followed by %x", op, f, line, sym, v, mode, err, rest, want, tail)
	}
	return "", ""
}

func c14Replay(w json.RawMessage) (string, string) {
	var wit c14Witness
	if err := json.Unmarshal(w, &wit); err != nil {
		return "bad-witness", err.Error()
	}
	switch wit.Kind {
	case "int":
		return c14Int(wit.N, true)
	case "sym":
		return c14Sym(wit.Op, wit.Len, wit.Pos)
	case "prog":
		return c14Prog(wit.Prog)
	case "form":
		return c14Form(wit.Op, wit.Len)
	}
	return "bad-witness", "kind"
}

func widthClass(n uint32) string {
	c := fmt.Sprint(codec.IntWidth(n))
	for _, k := range []uint{8, 16, 24} {
		b := uint32(1) << k
		if n == b || n == b-1 {
			c += "@boundary"
		}
	}
	if n == 0 || n == 1<<32-1 {
		c += "@end"
	}
	return c
}

func c14Run(c *mc.Ctx) {
	// (1) integers
	checkInt := func(n uint32, text bool) {
		c.Count("evaluations", 1)
		c.Count("ints", 1)
		if sig, msg := c14Int(n, text); sig != "" {
			c.Fail(sig, msg, c14Witness{Kind: "int", N: n})
		}
	}
	if c.Thorough() {
		// every uint32; work item = a block of 2^22 values; text round-trip on the windows below
		const block = 1 << 22
		for start := uint64(0); start < 1<<32; start += block {
			if !c.Mine() {
				continue
			}
			for n := start; n < start+block; n++ {
				checkInt(uint32(n), false)
			}
			c.Distinct("nontrivial", "int-block", fmt.Sprint(start))
			if c.TimeUp() {
				return
			}
		}
		c.Note("int_domain", "all 2^32 values")
	} else {
		c.Note("int_domain", "windows [0,70000] and 2^k +- 300 for k=8,16,24,32")
	}
	type win struct{ lo, hi uint64 }
	wins := []win{{0, 70000}, {1<<24 - 300, 1<<24 + 300}, {1<<32 - 600, 1<<32 - 1}, {1<<31 - 300, 1<<31 + 300}}
	for _, w := range wins {
		for lo := w.lo; lo <= w.hi; lo += 1000 {
			if !c.Mine() {
				continue
			}
			for n := lo; n < lo+1000 && n <= w.hi; n++ {
				checkInt(uint32(n), true)
				c.Distinct("nontrivial", "int", widthClass(uint32(n)))
			}
		}
	}
	// (2) symbol lengths
	for _, op := range c14SymOps {
		for pos := 0; pos < 2; pos++ {
			if !c.Mine() {
				continue
			}
			for l := 1; l <= 255; l++ {
				if _, ok := c14SymIns(op, l, pos); !ok {
					continue
				}
				c.Count("evaluations", 1)
				c.Count("symbols", 1)
				if l == 1 || l == 254 || l == 255 || l == 127 || l == 128 {
					c.Distinct("nontrivial", "sym", fmt.Sprint(op), fmt.Sprint(pos), fmt.Sprint(l))
				}
				if sig, msg := c14Sym(op, l, pos); sig != "" {
					c.Fail(sig, msg, c14Witness{Kind: "sym", Op: op, Len: l, Pos: pos})
				}
			}
		}
	}
	// (2b) spellings of the integer argument of vm.NewLine
	if c.Mine() {
		for _, op := range []uint16{codec.LOAD, codec.CROAK, codec.CATCH} {
			for fi := range c14Forms {
				c.Count("evaluations", 1)
				c.Count("integer_spellings", 1)
				if sig, msg := c14Form(op, fi); sig != "" {
					c.Fail(sig, msg, c14Witness{Kind: "form", Op: op, Len: fi})
				}
			}
		}
	}
	// (3) instruction sequences of length <= 3 over the pool
	pool := insPool(c.Thorough())
	c.Note("pool_instructions", fmt.Sprint(len(pool)))
	checkProg := func(p []codec.Ins) {
		c.Count("evaluations", 1)
		c.Count("programs", 1)
		if len(p) >= 2 {
			ops := ""
			for _, i := range p {
				ops += fmt.Sprint(i.Op, ",")
			}
			c.Distinct("nontrivial", "prog", ops)
		}
		if sig, msg := c14Prog(p); sig != "" {
			c.Fail(sig, msg, c14Witness{Kind: "prog", Prog: p})
		}
	}
	for ai, a := range pool {
		if !c.Mine() {
			continue
		}
		checkProg([]codec.Ins{a})
		for _, b := range pool {
			checkProg([]codec.Ins{a, b})
			for _, d := range pool {
				checkProg([]codec.Ins{a, b, d})
			}
		}
		if ai == 0 {
			p := []codec.Ins{a, pool[len(pool)/2], pool[len(pool)-1]}
			c.Sample(map[string]any{"program": codec.Listing(p), "hex": hex.EncodeToString(codec.Encode(p))})
		}
		if c.TimeUp() {
			return
		}
	}
}
