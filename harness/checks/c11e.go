package checks

import (
	"context"
	"fmt"

	"git.defalsify.org/vise.git/cache"
	"git.defalsify.org/vise.git/db"
	"git.defalsify.org/vise.git/persist"
	"git.defalsify.org/vise.git/state"

	"verif/mc"
	"verif/ref"
)

// C11, passes E and F.
//
// E (persister): the session is selected on the store handle itself (as examples/http does) and the
// persister is used WITHOUT WithSession, all sessions saving under the same record key: every session
// must load its own state back.
// F (context): reads and writes are made with a context that carries a "SessionId" value, as
// engine.Exec hands to entry functions: the value in the context must not select a session - the
// session-less namespace (handle session "") stays one namespace, and it is nobody's session data.

func c11PersistPass(b kvBackend, sessions []string, key string) (sig, msg string, steps int) {
	for variant := 0; variant < 3; variant++ {
		if sig, msg, n := c11PersistVariant(b, sessions, key, variant); sig != "" {
			return sig, msg, steps + n
		} else {
			steps += n
		}
	}
	return "", "", steps
}

// variant 0: a store handle and a persister per session, the session selected on the handle;
// variant 1: ONE persister on one handle, re-pointed with WithSession (all saves first, then all loads);
// variant 2: as 0, but the handle is shared with application code that selects USERDATA on it between the
// persister's construction and its Save / Load.
func c11PersistVariant(b kvBackend, sessions []string, key string, variant int) (sig, msg string, steps int) {
	st := b.New()
	defer st.cleanup()
	var shared *persist.Persister
	if variant == 1 {
		h, err := st.open()
		if err != nil {
			return "", "", 0
		}
		shared = persist.NewPersister(h)
	}
	vname := []string{"a persister per session", "one persister re-pointed with WithSession", "store handle shared with code that selects USERDATA"}[variant]
	mk := func(s string) (*state.State, *cache.Cache) {
		x := state.NewState(2)
		x.Down("root")
		x.Down("node_" + s)
		c := cache.NewCache()
		c.Push()
		c.Add("who", "value of "+s, 0)
		return x, c
	}
	if variant == 2 {
		// the application's own data, under the same key as the session record
		for _, s := range sessions {
			h, err := st.open()
			if err != nil {
				return "", "", steps
			}
			h.SetSession(s)
			h.SetPrefix(db.DATATYPE_USERDATA)
			steps++
			if err := h.Put(context.Background(), []byte(key), []byte("user data of "+s)); err != nil {
				return "", "", steps
			}
		}
	}
	for _, s := range sessions {
		h, err := st.open()
		if err != nil {
			return "", "", steps
		}
		h.SetSession(s)
		pe := persist.NewPersister(h)
		if variant == 1 {
			pe = shared.WithSession(s)
		}
		if variant == 2 {
			h.SetPrefix(db.DATATYPE_USERDATA)
		}
		x, c := mk(s)
		pe = pe.WithContent(x, c)
		steps++
		if err := pe.Save(key); err != nil {
			return "", "", steps // refused by the backend: dropped
		}
	}
	for _, s := range sessions {
		h, err := st.open()
		if err != nil {
			return "", "", steps
		}
		h.SetSession(s)
		pe := persist.NewPersister(h)
		if variant == 1 {
			// loaded into whatever the shared persister holds (no new content objects are handed over)
			pe = shared.WithSession(s)
		} else {
			pe = pe.WithContent(state.NewState(2), cache.NewCache())
		}
		if variant == 2 {
			// the record is where a persister on an untouched handle looks for it, and the application's data is intact
			h.SetPrefix(db.DATATYPE_USERDATA)
			steps++
			if v, err := h.Get(context.Background(), []byte(key)); err != nil || string(v) != "user data of "+s {
				return "persister-overwrote-user-data@" + b.Name, fmt.Sprintf("sessions %q each saved under record key %q (%s); the user data stored under that key for session %q now reads %q (%v)", sessions, key, vname, s, v, err), steps
			}
			h2, err := st.open()
			if err != nil {
				return "", "", steps
			}
			h2.SetSession(s)
			pe = persist.NewPersister(h2).WithContent(state.NewState(2), cache.NewCache())
		}
		steps++
		if err := pe.Load(key); err != nil {
			return "persisted-session-lost@" + b.Name, fmt.Sprintf("sessions %q each saved under record key %q (%s); session %q cannot load its record: %v", sessions, key, vname, s, err), steps
		}
		got, _ := pe.Memory.Get("who")
		if got != "value of "+s || len(pe.State.ExecPath) != 2 || pe.State.ExecPath[1] != "node_"+s {
			return "persisted-session-crossed@" + b.Name, fmt.Sprintf("sessions %q each saved under record key %q (%s); session %q loads %q at %v", sessions, key, vname, s, got, pe.State.ExecPath), steps
		}
	}
	return "", "", steps
}

func c11CtxPass(b kvBackend, typ uint8, ctxWriter, ctxReader, key string) (sig, msg string, steps int) {
	st := b.New()
	defer st.cleanup()
	h, err := st.open()
	if err != nil {
		return "", "", 0
	}
	cw := context.WithValue(context.Background(), "SessionId", ctxWriter)
	cr := context.WithValue(context.Background(), "SessionId", ctxReader)
	h.SetPrefix(typ)
	// the writer's own session data
	h.SetSession(ctxWriter)
	if err := h.Put(cw, []byte(key), []byte("own:"+ctxWriter)); err != nil {
		return "", "", 1
	}
	// session-less data written while a request of ctxWriter is being served
	h.SetSession("")
	if err := h.Put(cw, []byte(key), []byte("shared")); err != nil {
		return "", "", 2
	}
	steps = 2
	probe := func(sess string, ctx context.Context, want string, wantFound bool, what string) (string, string) {
		h.SetSession(sess)
		v, err := h.Get(ctx, []byte(key))
		steps++
		if wantFound {
			if err != nil || string(v) != want {
				return "context-session-selects-data@" + b.Name, fmt.Sprintf("%s %s key %q: %s returns (%q, %v), written was %q (context SessionId writer %q reader %q)", b.Name, typName(typ), key, what, v, err, want, ctxWriter, ctxReader)
			}
		} else if err == nil {
			return "context-session-selects-data@" + b.Name, fmt.Sprintf("%s %s key %q: %s returns %q although nothing was written there (context SessionId writer %q reader %q)", b.Name, typName(typ), key, what, v, ctxWriter, ctxReader)
		} else if !db.IsNotFound(err) {
			return "", ""
		}
		return "", ""
	}
	for _, p := range []struct {
		sess  string
		ctx   context.Context
		want  string
		found bool
		what  string
	}{
		{"", cr, "shared", true, "the session-less entry read during another session's request"},
		{"", cw, "shared", true, "the session-less entry read during the writer's request"},
		{ctxWriter, cr, "own:" + ctxWriter, true, "the writer's session entry read with its session selected"},
		{ctxReader, cw, "", false, "the reader's (never written) session entry"},
	} {
		if sig, msg := probe(p.sess, p.ctx, p.want, p.found, p.what); sig != "" {
			return sig, msg, steps
		}
	}
	return "", "", steps
}

func typName(t uint8) string {
	switch t {
	case db.DATATYPE_STATE:
		return "STATE"
	case db.DATATYPE_USERDATA:
		return "USERDATA"
	}
	return fmt.Sprint(t)
}

// c11ListPass (pass G): two sessions whose ids are related (one is a suffix, prefix or infix of the other)
// hold the same keys; the listing under each must be exactly its own entries, once each.
func c11ListPass(b kvBackend, typ uint8, sa, sb string) (sig, msg string, steps int) {
	st := b.New()
	defer st.cleanup()
	h, err := st.open()
	if err != nil {
		return "", "", 0
	}
	ctx := context.Background()
	keys := []string{"k", "a", "ka"}
	h.SetPrefix(typ)
	for _, s := range []string{sa, sb} {
		h.SetSession(s)
		for _, k := range keys {
			steps++
			if err := h.Put(ctx, []byte(k), []byte(s+":"+k)); err != nil {
				return "", "", steps // refused: dropped
			}
		}
	}
	for _, s := range []string{sa, sb} {
		h.SetSession(s)
		h.SetPrefix(typ)
		steps++
		o := kvApply(h, ref.KVOp{Op: "dump", Key: ""})
		where := fmt.Sprintf("[%s] sessions %q and %q each hold keys %q under %s; Dump(\"\") under session %q", b.Name, sa, sb, keys, typName(typ), s)
		if o.Panic != "" {
			return "panic-dump@" + b.Name, where + " panics: " + o.Panic, steps
		}
		if o.Err != nil {
			return "listing-with-related-session-fails@" + b.Name, fmt.Sprintf("%s fails: %v", where, o.Err), steps
		}
		seen := map[string]int{}
		for _, p := range o.List {
			seen[p.K]++
			if p.V != s+":"+p.K {
				return "listing-with-related-session-wrong@" + b.Name, fmt.Sprintf("%s lists %q=%q", where, p.K, p.V), steps
			}
		}
		for _, k := range keys {
			if seen[k] != 1 {
				return "listing-with-related-session-wrong@" + b.Name, fmt.Sprintf("%s lists key %q %d times (listing: %v)", where, k, seen[k], o.List), steps
			}
		}
		if len(seen) != len(keys) {
			return "listing-with-related-session-wrong@" + b.Name, fmt.Sprintf("%s lists %v", where, o.List), steps
		}
	}
	return "", "", steps
}

// c11CopyPass (pass H): a record is copied from one place to another by handing the value a Get returned
// to a Put; the copy is then overwritten with a fresh value of the SAME length. The original must not change.
func c11CopyPass(b kvBackend, typA uint8, sa string, typB uint8, sb string) (sig, msg string, steps int) {
	st := b.New()
	defer st.cleanup()
	h, err := st.open()
	if err != nil {
		return "", "", 0
	}
	ctx := context.Background()
	sel := func(t uint8, s string) { h.SetPrefix(t); h.SetSession(s) }
	sel(typA, sa)
	steps += 5
	if err := h.Put(ctx, []byte("k"), []byte("original")); err != nil {
		return "", "", steps
	}
	v, err := h.Get(ctx, []byte("k"))
	if err != nil {
		return "", "", steps
	}
	sel(typB, sb)
	if err := h.Put(ctx, []byte("k"), v); err != nil {
		return "", "", steps
	}
	if err := h.Put(ctx, []byte("k"), []byte("replaced")); err != nil {
		return "", "", steps
	}
	sel(typA, sa)
	got, err := h.Get(ctx, []byte("k"))
	if err != nil || string(got) != "original" {
		return "write-to-copy-changes-original@" + b.Name, fmt.Sprintf("[%s] Put(%s,%q,k)=original; v=Get; Put(%s,%q,k)=v; Put(%s,%q,k)=replaced; Get(%s,%q,k) returns %q (%v)", b.Name, typName(typA), sa, typName(typB), sb, typName(typB), sb, typName(typA), sa, got, err), steps
	}
	return "", "", steps
}

type c11ExtraWitness struct {
	Kind     string   `json:"kind"` // persist | ctx
	Backend  string   `json:"backend"`
	Sessions []string `json:"sessions,omitempty"`
	Key      string   `json:"key"`
	Typ      uint8    `json:"typ,omitempty"`
	Typ2     uint8    `json:"typ2,omitempty"`
	CtxW     string   `json:"context_session_writer,omitempty"`
	CtxR     string   `json:"context_session_reader,omitempty"`
}

func c11ExtraReplay(w c11ExtraWitness) (string, string) {
	b, ok := kvBackendByName(w.Backend)
	if !ok {
		return "bad-witness", "backend"
	}
	if w.Kind == "persist" {
		s, m, _ := c11PersistPass(b, w.Sessions, w.Key)
		return s, m
	}
	if w.Kind == "related-list" {
		s, m, _ := c11ListPass(b, w.Typ, w.Sessions[0], w.Sessions[1])
		return s, m
	}
	if w.Kind == "copy" {
		s, m, _ := c11CopyPass(b, w.Typ, w.Sessions[0], w.Typ2, w.Sessions[1])
		return s, m
	}
	s, m, _ := c11CtxPass(b, w.Typ, w.CtxW, w.CtxR, w.Key)
	return s, m
}

func c11ExtraPasses(c *mc.Ctx) {
	sess := []string{"a", "b", "ab", "a_nor", "@a", "Pa"}
	// passes G and H
	rel := []string{"a", "aa", "ba", "ab", "aba", "5550100", "15550100"}
	for _, b := range kvBackends() {
		if !c.Mine() {
			continue
		}
		for _, typ := range []uint8{db.DATATYPE_STATE, db.DATATYPE_USERDATA} {
			for i := range rel {
				for j := range rel {
					if i == j {
						continue
					}
					if b.HasDump || b.Kind == "pg" {
						sig, msg, steps := c11ListPass(b, typ, rel[i], rel[j])
						c.Count("evaluations", 1)
						c.Count("related_session_listing_cases", 1)
						c.Count("transitions", int64(steps))
						if sig != "" {
							c.Fail(sig, msg, c11ExtraWitness{Kind: "related-list", Backend: b.Name, Typ: typ, Sessions: []string{rel[i], rel[j]}})
						}
					}
					for _, typ2 := range []uint8{db.DATATYPE_STATE, db.DATATYPE_USERDATA} {
						sig, msg, steps := c11CopyPass(b, typ, rel[i], typ2, rel[j])
						c.Count("evaluations", 1)
						c.Count("copied_record_cases", 1)
						c.Count("transitions", int64(steps))
						if sig != "" {
							c.Fail(sig, msg, c11ExtraWitness{Kind: "copy", Backend: b.Name, Typ: typ, Typ2: typ2, Sessions: []string{rel[i], rel[j]}})
						}
					}
				}
			}
		}
	}
	for _, b := range kvBackends() {
		for i := 0; i < len(sess); i++ {
			if !c.Mine() {
				continue
			}
			for j := 0; j < len(sess); j++ {
				if i == j {
					continue
				}
				for _, key := range []string{"k", "state", sess[i]} {
					sig, msg, steps := c11PersistPass(b, []string{sess[i], sess[j]}, key)
					c.Count("evaluations", 1)
					c.Count("persist_pass_cases", 1)
					c.Count("transitions", int64(steps))
					if sig != "" {
						c.Fail(sig, msg, c11ExtraWitness{Kind: "persist", Backend: b.Name, Sessions: []string{sess[i], sess[j]}, Key: key})
					}
				}
				for _, typ := range []uint8{db.DATATYPE_STATE, db.DATATYPE_USERDATA} {
					sig, msg, steps := c11CtxPass(b, typ, sess[i], sess[j], "k")
					c.Count("evaluations", 1)
					c.Count("context_pass_cases", 1)
					c.Count("transitions", int64(steps))
					if sig != "" {
						c.Fail(sig, msg, c11ExtraWitness{Kind: "ctx", Backend: b.Name, Typ: typ, CtxW: sess[i], CtxR: sess[j], Key: "k"})
					}
				}
			}
		}
	}
}
