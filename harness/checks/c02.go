package checks

import (
	"encoding/json"
	"fmt"
	"strings"

	"git.defalsify.org/vise.git/engine"
	"git.defalsify.org/vise.git/resource"

	"verif/app"
	"verif/codec"
	"verif/mc"
)

// C02 — paginated sink content is complete, ordered and navigable: exhaustive walks through the engine.

func init() {
	register(&mc.Check{
		ID:    "C02",
		Level: "model_checking",
		Rule: "all sink contents of 0..R rows with row lengths from a small set (leading, inner and trailing empty rows included), two templates, 0..2 ordinary menu entries, MSINK variant, browse configuration {none,next,prev,both} x label lengths, and EVERY output size from 1 to (unpaginated length + 3); " +
			"each configuration is walked through engine.DefaultEngine: page 0, 'next' until the engine answers with an error or the catch page, one step beyond, then 'previous' back to page 0 and one step before it; one relation over the whole walk is checked (completeness/order of rows, static parts on every page, next/previous offered exactly where they lead somewhere, past-the-end answered without content, page index = walk index); " +
			"states = distinct (configuration, page index) positions rendered; non-trivial = walks with >=3 pages",
		Assumptions: []string{"row alphabet is letters only (no NUL, no template syntax)", "the partition into pages chosen by the renderer is not constrained, only the relation over the walk", "a configuration whose page 0 fails with an error satisfies the property vacuously and is counted separately"},
		Run:         c02Run,
		Replay:      c02Replay,
		MinItems:    100,
	})
}

type c02Cfg struct {
	Rows    []string `json:"rows"`
	Tpl     int      `json:"template"` // 0: "[{{.items}}]"  1: "hd {{.val}}\n[{{.items}}]\n--"
	Menu    int      `json:"ordinary_menu_entries"`
	MSink   bool     `json:"msink"`
	Next    bool     `json:"next_configured"`
	Prev    bool     `json:"prev_configured"`
	LongLbl bool     `json:"long_labels"`
	MBLbl   bool     `json:"multibyte_labels,omitempty"`
	Sep     string   `json:"menu_separator,omitempty"`              // engine.Config.MenuSeparator ("" = default ':'); not with MSink
	XLbl    bool     `json:"labels_expanded_by_resource,omitempty"` // the browse entries name symbols (nx, pv) that the resource expands to longer labels
	Size    uint32   `json:"output_size"`
	Mode    string   `json:"mode"`
}

func (g c02Cfg) labels() (nx, pv string) {
	if g.XLbl {
		return "page suivante", "page precedente"
	}
	if g.MBLbl {
		return "weiter \u2192\u2192", "zur\u00fcck \u2190" // 13 and 10 bytes, 9 and 8 characters
	}
	if g.LongLbl {
		return "nextpage", "prevpage"
	}
	return "nx", "pv"
}

func (g c02Cfg) sep() string {
	if g.Sep == "" {
		return ":"
	}
	return g.Sep
}

func (g c02Cfg) content() string { return strings.Join(g.Rows, "\n") }

func (g c02Cfg) prePost() (string, string) {
	if g.MSink {
		return "hd\n", ""
	}
	if g.Tpl == 0 {
		return "[", "]"
	}
	return "hd vv\n[", "]\n--"
}

// cannotFit reports whether a follow-up page (index >= 1) that has to start with rest[0] is too
// large for the output size even when it holds that single row: static parts + row + ordinary menu
// + previous entry (if configured) + next entry (if configured and more rows follow).
func (g c02Cfg) cannotFit(rest []string) bool {
	pre, post := g.prePost()
	nx, pv := g.labels()
	n := len(pre) + len(rest[0]) + len(post)
	for _, l := range g.ordinary() {
		n += 1 + len(l)
	}
	first := len(g.ordinary()) == 0 && !g.MSink
	add := func(l string) {
		n += len(l) + 1
		_ = first
	}
	if g.Prev {
		add("22" + g.sep() + pv)
	}
	if g.Next && len(rest) > 1 {
		add("11" + g.sep() + nx)
	}
	return n > int(g.Size)
}

// page0Reserved narrows the open finding "follow-up page cannot fit" to the situation in which it
// exists on the repaired tree: page 0 was entitled to render, i.e. its first row fitted next to the
// static parts with the "next" entry reserved (byte lengths) and the renderer's two bytes of slack.
// A page 0 that rendered with less room than that was under-reserved - a different defect, which
// must not hide behind the finding.
func (g c02Cfg) page0Reserved() bool {
	pre, post := g.prePost()
	n := len(pre) + len(post)
	for _, l := range g.ordinary() {
		n += 1 + len(l)
	}
	next := 0
	if g.Next && len(g.Rows) > 1 {
		nx, _ := g.labels()
		next = len("11"+g.sep()+nx) + 1
	}
	return int(g.Size)-n >= len(g.Rows[0])+next+2
}

func (g c02Cfg) ordinary() []string {
	var l []string
	if g.MSink {
		return nil
	}
	for i := 0; i < g.Menu; i++ {
		l = append(l, fmt.Sprintf("%d%sm%d", i, g.sep(), i))
	}
	return l
}

func c02App(g c02Cfg) *app.App {
	a := app.New("paged")
	nx, pv := g.labels()
	var code []codec.Ins
	tpl := ""
	if g.MSink {
		tpl = "hd"
		for _, r := range g.Rows {
			// row "k:label" -> MOUT label k
			p := strings.SplitN(r, ":", 2)
			code = append(code, codec.Ins{Op: codec.MOUT, Sym: p[1], Sel: p[0]})
		}
	} else {
		code = append(code, codec.Ins{Op: codec.LOAD, Sym: "items", N: 0})
		if g.Tpl == 1 {
			tpl = "hd {{.val}}\n[{{.items}}]\n--"
			code = append(code, codec.Ins{Op: codec.LOAD, Sym: "val", N: 4}, codec.Ins{Op: codec.MAP, Sym: "val"})
		} else {
			tpl = "[{{.items}}]"
		}
		code = append(code, codec.Ins{Op: codec.MAP, Sym: "items"})
		for i := 0; i < g.Menu; i++ {
			code = append(code, codec.Ins{Op: codec.MOUT, Sym: fmt.Sprintf("m%d", i), Sel: fmt.Sprint(i)})
		}
	}
	if g.XLbl {
		a.Menus["nx"], a.Menus["pv"] = nx, pv
		nx, pv = "nx", "pv"
	}
	if g.Next {
		code = append(code, codec.Ins{Op: codec.MNEXT, Sym: nx, Sel: "11"})
	}
	if g.Prev {
		code = append(code, codec.Ins{Op: codec.MPREV, Sym: pv, Sel: "22"})
	}
	if g.MSink {
		code = append(code, codec.Ins{Op: codec.MSINK})
	}
	code = append(code, codec.Ins{Op: codec.HALT}, codec.Ins{Op: codec.INCMP, Sym: ">", Sel: "11"}, codec.Ins{Op: codec.INCMP, Sym: "<", Sel: "22"}, codec.Ins{Op: codec.INCMP, Sym: "two", Sel: "77"})
	a.Node("root", tpl, code...)
	// a second node with a sink of the OTHER kind, to be visited between two walks of the entry node
	if g.MSink {
		a.Node("two", "<{{.other}}>", codec.Ins{Op: codec.LOAD, Sym: "other", N: 0}, codec.Ins{Op: codec.MAP, Sym: "other"}, codec.Ins{Op: codec.HALT}, codec.Ins{Op: codec.INCMP, Sym: "_", Sel: "88"})
	} else {
		a.Node("two", "two", codec.Ins{Op: codec.MOUT, Sym: "ma", Sel: "5"}, codec.Ins{Op: codec.MOUT, Sym: "mb", Sel: "6"}, codec.Ins{Op: codec.MNEXT, Sym: "nx", Sel: "11"}, codec.Ins{Op: codec.MPREV, Sym: "pv", Sel: "22"},
			codec.Ins{Op: codec.MSINK}, codec.Ins{Op: codec.HALT}, codec.Ins{Op: codec.INCMP, Sym: "_", Sel: "88"}, codec.Ins{Op: codec.INCMP, Sym: ">", Sel: "11"}, codec.Ins{Op: codec.INCMP, Sym: "<", Sel: "22"})
	}
	a.Func("other", constFunc("x\ny\nz"))
	a.Node("_catch", "CATCH", codec.Ins{Op: codec.HALT}, codec.Ins{Op: codec.INCMP, Sym: "_", Sel: "*"})
	content := g.content()
	a.Func("items", func(e *app.Env, sym string, in []byte, l string) (resource.Result, error) {
		return resource.Result{Content: content}, nil
	})
	a.Func("val", func(e *app.Env, sym string, in []byte, l string) (resource.Result, error) {
		return resource.Result{Content: "vv"}, nil
	})
	return a
}

// unpaginated length: everything on one page without lateral entries
func (g c02Cfg) total() int {
	pre, post := g.prePost()
	n := len(pre) + len(g.content()) + len(post)
	for _, l := range g.ordinary() {
		n += 1 + len(l)
	}
	return n
}

type c02Page struct {
	region  string
	hasNext bool
	hasPrev bool
	raw     string
}

// c02Parse splits a rendered page into its parts; ok=false if it is not of the form
// static-template[region] + ordinary menu + lateral entries.
func c02Parse(g c02Cfg, out string) (p c02Page, why string) {
	p.raw = out
	pre, post := g.prePost()
	nx, pv := g.labels()
	nextLine, prevLine := "11"+g.sep()+nx, "22"+g.sep()+pv
	if g.MSink {
		if out == "hd" {
			return p, "no menu rows at all"
		}
		if !strings.HasPrefix(out, pre) {
			return p, "static template text missing"
		}
		lines := strings.Split(out[len(pre):], "\n")
		var region []string
		for _, l := range lines {
			switch l {
			case nextLine:
				if p.hasNext {
					return p, "next entry twice"
				}
				p.hasNext = true
			case prevLine:
				if p.hasPrev {
					return p, "previous entry twice"
				}
				p.hasPrev = true
			default:
				if p.hasNext || p.hasPrev {
					return p, "content after the lateral entries"
				}
				region = append(region, l)
			}
		}
		p.region = strings.Join(region, "\n")
		return p, ""
	}
	if !strings.HasPrefix(out, pre) {
		return p, "static template text before the sink missing"
	}
	end := strings.Index(out, "]")
	if end < len(pre)-0 || end < 0 {
		return p, "closing marker missing"
	}
	p.region = out[len(pre):end]
	rest := out[end:]
	if !strings.HasPrefix(rest, post) {
		return p, "static template text after the sink missing"
	}
	rest = rest[len(post):]
	want := g.ordinary()
	var got []string
	if rest != "" {
		if rest[0] != '\n' {
			return p, "garbage after template"
		}
		got = strings.Split(rest[1:], "\n")
	}
	k := 0
	for _, l := range got {
		switch {
		case l == nextLine && !p.hasNext:
			p.hasNext = true
		case l == prevLine && !p.hasPrev:
			p.hasPrev = true
		case k < len(want) && l == want[k]:
			k++
		default:
			return p, fmt.Sprintf("unexpected menu line %q", l)
		}
	}
	if k != len(want) {
		return p, "ordinary menu entries missing"
	}
	return p, ""
}

// c02Walk performs the walk and checks the relation. vis is called per rendered page.
func c02Walk(g c02Cfg, vis func(pages int, vacuous bool)) (sig, msg string, reqs int) {
	a := c02App(g)
	var s *app.Session
	if g.Mode == "persisted" {
		s = app.NewSession(a, engine.Config{SessionId: "s1", OutputSize: g.Size, MenuSeparator: g.Sep}, app.Persisted)
		s.Open = app.MemStore()
		s.FinishOnError = true
	} else {
		s = app.NewSession(a, engine.Config{OutputSize: g.Size, MenuSeparator: g.Sep}, app.LongLived)
	}
	isCatch := func(r app.Resp) bool {
		return strings.Contains(r.Out, "CATCH") && s.St != nil && len(s.St.ExecPath) > 0 && s.St.ExecPath[len(s.St.ExecPath)-1] == "_catch"
	}
	content := g.content()
	maxPages := len(g.Rows) + 3
	var pages []c02Page
	beyondRefused := false
	in := ""
	for i := 0; i <= maxPages; i++ {
		r := s.Request([]byte(in))
		reqs++
		in = "11"
		if r.Panic != "" {
			return "panic", fmt.Sprintf("page %d: panic %s", i, r.Panic), reqs
		}
		if r.Budget {
			return "nontermination", fmt.Sprintf("page %d: instruction budget exceeded", i), reqs
		}
		failed := r.ExecErr != "" || r.FlushErr != "" || isCatch(r)
		if failed {
			if i > 0 && r.FlushErr != "" && r.ExecErr == "" {
				shown := 0
				for _, q := range pages {
					shown += strings.Count(q.region, "\n") + 1
				}
				if shown < len(g.Rows) && g.cannotFit(g.Rows[shown:]) && g.page0Reserved() {
					return "follow-up-page-cannot-fit", fmt.Sprintf("page %d fails to render (%s): its first row %q cannot fit next to the static parts and the lateral entries that page needs within %d bytes, but page 0 was rendered (next offered on page %d: %v)", i, r.FlushErr, g.Rows[shown], g.Size, i-1, pages[i-1].hasNext), reqs
				}
			}
			if i > 0 && pages[i-1].hasNext {
				return "next-leads-nowhere", fmt.Sprintf("page %d offers next but page %d does not render (exec=%q flush=%q out=%q)", i-1, i, r.ExecErr, r.FlushErr, r.Out), reqs
			}
			if r.Out != "" && !isCatch(r) && r.FlushErr == "" && r.ExecErr == "" {
				return "past-end-content", fmt.Sprintf("page %d (past the end) answered with %q", i, r.Out), reqs
			}
			beyondRefused = i > 0 && r.FlushErr != "" && r.ExecErr == "" && !isCatch(r) && g.Prev
			break
		}
		if len(r.Out) > int(g.Size) {
			return "oversize-page", fmt.Sprintf("page %d is %d bytes, limit %d: %q", i, len(r.Out), g.Size, r.Out), reqs
		}
		p, why := c02Parse(g, r.Out)
		if why != "" {
			return "malformed-page", fmt.Sprintf("page %d %q: %s", i, r.Out, why), reqs
		}
		if s.St.SizeIdx != uint16(i) {
			return "index-mismatch", fmt.Sprintf("page %d rendered while the session's page index is %d", i, s.St.SizeIdx), reqs
		}
		pages = append(pages, p)
		// pages beyond the content? detect early: joined regions must stay a prefix of the content
		var regs []string
		for _, q := range pages {
			regs = append(regs, q.region)
		}
		j := strings.Join(regs, "\n")
		if !(j == content || strings.HasPrefix(content, j+"\n")) {
			return "rows-wrong", fmt.Sprintf("pages 0..%d show %q, content is %q", i, j, content), reqs
		}
		if i == maxPages {
			return "too-many-pages", fmt.Sprintf("%d pages rendered for %d rows", i+1, len(g.Rows)), reqs
		}
	}
	n := len(pages)
	if n == 0 {
		if vis != nil {
			vis(0, true)
		}
		return "", "", reqs
	}
	var regs []string
	for _, q := range pages {
		regs = append(regs, q.region)
	}
	if j := strings.Join(regs, "\n"); j != content {
		return "rows-incomplete", fmt.Sprintf("walking all %d pages shows %q, content is %q", n, j, content), reqs
	}
	for i, p := range pages {
		wantNext := g.Next && i < n-1
		wantPrev := g.Prev && i > 0
		if p.hasNext != wantNext {
			return "next-entry-wrong", fmt.Sprintf("page %d of %d: next offered=%v, expected %v (%q)", i, n, p.hasNext, wantNext, p.raw), reqs
		}
		if p.hasPrev != wantPrev {
			return "prev-entry-wrong", fmt.Sprintf("page %d of %d: previous offered=%v, expected %v (%q)", i, n, p.hasPrev, wantPrev, p.raw), reqs
		}
	}
	if vis != nil {
		vis(n, false)
	}
	// the request one step beyond the end was refused with a render error (not answered by the catch page): in the
	// SAME session 'previous' leads back to the last page, and from there all the way to page 0
	if beyondRefused && n >= 2 {
		for i := n - 1; i >= 0; i-- {
			r := s.Request([]byte("22"))
			reqs++
			if r.Panic != "" {
				return "panic", fmt.Sprintf("back to page %d after the refused step beyond the end: panic %s", i, r.Panic), reqs
			}
			if r.ExecErr != "" || r.FlushErr != "" || r.Out != pages[i].raw {
				return "previous-after-refused-next-differs", fmt.Sprintf("after the refused step beyond the last page, going back to page %d gives %q (exec=%q flush=%q), the forward walk gave %q", i, r.Out, r.ExecErr, r.FlushErr, pages[i].raw), reqs
			}
		}
	}
	// the session is now on the catch page (one step beyond the end) or in error. Walk back with a
	// fresh session positioned on the last page.
	if n >= 2 {
		if g.Mode == "persisted" {
			s = app.NewSession(a, engine.Config{SessionId: "s2", OutputSize: g.Size, MenuSeparator: g.Sep}, app.Persisted)
			s.Open = app.MemStore()
			s.FinishOnError = true
		} else {
			s = app.NewSession(a, engine.Config{OutputSize: g.Size, MenuSeparator: g.Sep}, app.LongLived)
		}
		in = ""
		for i := 0; i < n; i++ {
			r := s.Request([]byte(in))
			reqs++
			in = "11"
			if r.Out != pages[i].raw {
				return "walk-not-repeatable", fmt.Sprintf("second forward walk page %d gives %q, first gave %q", i, r.Out, pages[i].raw), reqs
			}
		}
		for i := n - 2; i >= 0; i-- {
			r := s.Request([]byte("22"))
			reqs++
			if r.Panic != "" {
				return "panic", fmt.Sprintf("back to page %d: panic %s", i, r.Panic), reqs
			}
			if r.ExecErr != "" || r.FlushErr != "" || r.Out != pages[i].raw {
				return "previous-differs", fmt.Sprintf("going back to page %d gives %q (exec=%q flush=%q), forward walk gave %q", i, r.Out, r.ExecErr, r.FlushErr, pages[i].raw), reqs
			}
			if s.St.SizeIdx != uint16(i) {
				return "index-mismatch", fmt.Sprintf("back at page %d the session's page index is %d", i, s.St.SizeIdx), reqs
			}
		}
		r := s.Request([]byte("22"))
		reqs++
		if r.Panic != "" {
			return "panic", fmt.Sprintf("previous on page 0: panic %s", r.Panic), reqs
		}
		if r.ExecErr == "" && r.FlushErr == "" && !isCatch(r) {
			return "before-first-content", fmt.Sprintf("previous on page 0 answered with %q", r.Out), reqs
		}
	}
	// revisit: page 0, over to the node with the other kind of sink, back, and the whole walk again
	{
		if g.Mode == "persisted" {
			s = app.NewSession(a, engine.Config{SessionId: "s3", OutputSize: g.Size, MenuSeparator: g.Sep}, app.Persisted)
			s.Open = app.MemStore()
			s.FinishOnError = true
		} else {
			s = app.NewSession(a, engine.Config{OutputSize: g.Size, MenuSeparator: g.Sep}, app.LongLived)
		}
		r0 := s.Request([]byte(""))
		r1 := s.Request([]byte("77"))
		reqs += 2
		if r0.Panic != "" || r1.Panic != "" {
			return "panic", fmt.Sprintf("visiting the second sink node: panic %s%s", r0.Panic, r1.Panic), reqs
		}
		if r1.ExecErr == "" && (r1.FlushErr == "" || g.Mode == "persisted") {
			in := "88"
			for i := 0; i < n; i++ {
				r := s.Request([]byte(in))
				reqs++
				in = "11"
				if r.Panic != "" {
					return "panic", fmt.Sprintf("revisit page %d: panic %s", i, r.Panic), reqs
				}
				if r.Out != pages[i].raw {
					return "revisit-differs", fmt.Sprintf("after a visit to a node with another sink, page %d is %q (exec=%q flush=%q); the first walk gave %q", i, r.Out, r.ExecErr, r.FlushErr, pages[i].raw), reqs
				}
			}
		}
	}
	return "", "", reqs
}

func c02Replay(w json.RawMessage) (string, string) {
	var g c02Cfg
	if err := json.Unmarshal(w, &g); err != nil {
		return "bad-witness", err.Error()
	}
	s, m, _ := c02Walk(g, nil)
	return s, m
}

func c02Contents(maxRows int, lens []int) [][]string {
	out := [][]string{{""}} // zero rows == the empty content == one empty row
	var rec func(cur []string)
	rec = func(cur []string) {
		if len(cur) > 0 && !(len(cur) == 1 && cur[0] == "") {
			out = append(out, append([]string(nil), cur...))
		}
		if len(cur) == maxRows {
			return
		}
		for _, l := range lens {
			row := strings.Repeat(string(rune('a'+len(cur))), l)
			rec(append(cur, row))
		}
	}
	rec(nil)
	return out
}

func c02MenuContents(maxRows int, lens []int) [][]string {
	var out [][]string
	var rec func(cur []string)
	rec = func(cur []string) {
		if len(cur) > 0 {
			out = append(out, append([]string(nil), cur...))
		}
		if len(cur) == maxRows {
			return
		}
		for _, l := range lens {
			row := fmt.Sprintf("%d:%s", len(cur)+1, strings.Repeat(string(rune('a'+len(cur))), l))
			rec(append(cur, row))
		}
	}
	rec(nil)
	return out
}

func c02Run(c *mc.Ctx) {
	maxRows, lens := 5, []int{0, 1, 3}
	mlens := []int{1, 4}
	modes := []string{"long-lived"}
	if c.Thorough() {
		maxRows, lens = 5, []int{0, 1, 2, 3, 4}
		mlens = []int{1, 3, 6}
		modes = []string{"long-lived", "persisted"}
	}
	c.Note("max_rows", fmt.Sprint(maxRows))
	c.Note("row_lengths", fmt.Sprint(lens))
	type fam struct {
		msink bool
		rows  [][]string
	}
	fams := []fam{{false, c02Contents(maxRows, lens)}, {true, c02MenuContents(maxRows, mlens)}}
	// a family of longer lists (6-8 rows of 8-10 bytes, the size of a real listing): every output size, walked in both
	// operation modes - at these sizes a page that was refused can be laid out again with the same page count
	if c.Mine() {
		long := []string{"one 1111", "two 2222", "three 3333", "four 4444", "five 5555", "six 6666", "seven 7777", "eight 8888"}
		for n := 6; n <= 8; n++ {
			for _, tpl := range []int{0, 1} {
				for _, mode := range []string{"long-lived", "persisted"} {
					g := c02Cfg{Rows: long[:n], Tpl: tpl, Menu: 1, Next: true, Prev: true, Mode: mode}
					tot := g.total()
					for sz := 20; sz <= tot+3; sz++ {
						g.Size = uint32(sz)
						sig, msg, reqs := c02Walk(g, func(pages int, vac bool) {
							if !vac && pages >= 3 {
								c.Count("walks_with_3_or_more_pages", 1)
								c.Count("long_list_walks_with_3_or_more_pages", 1)
							}
						})
						c.Count("evaluations", 1)
						c.Count("transitions", int64(reqs))
						if sig != "" {
							c.Fail(sig, msg, g)
						}
					}
				}
			}
		}
	}
	for _, f := range fams {
		for _, rows := range f.rows {
			if !c.Mine() {
				continue
			}
			tpls := []int{0, 1}
			menus := []int{0, 1, 2}
			if f.msink {
				tpls, menus = []int{0}, []int{0}
			}
			for _, tpl := range tpls {
				for _, mn := range menus {
					for b := 0; b < 4; b++ {
						for _, long := range []bool{false, true} {
							if b == 0 && long {
								continue
							}
							for _, mode := range modes {
								g := c02Cfg{Rows: rows, Tpl: tpl, Menu: mn, MSink: f.msink, Next: b&1 != 0, Prev: b&2 != 0, LongLbl: long, Mode: mode}
								if long && b == 3 && mn == 1 {
									g.LongLbl, g.MBLbl = false, true // this slot of the family uses labels with multi-byte characters
								}
								if long && b == 3 && mn == 2 {
									g.LongLbl, g.Sep = false, " - " // ... this one a menu separator of three bytes
								}
								if long && b == 3 && mn == 0 && !f.msink {
									g.LongLbl, g.XLbl = false, true // ... and this one browse labels that the resource expands
								}
								tot := g.total()
								for sz := 1; sz <= tot+3; sz++ {
									g.Size = uint32(sz)
									key := fmt.Sprintf("%v|%d|%d|%v|%d|%v%v%v%s|%d", rows, tpl, mn, f.msink, b, g.LongLbl, g.MBLbl, g.XLbl, g.Sep, sz)
									sig, msg, reqs := c02Walk(g, func(pages int, vac bool) {
										if vac {
											c.Count("walks_page0_fails_vacuous", 1)
											return
										}
										for i := 0; i < pages; i++ {
											c.Distinct("states", key, fmt.Sprint(i))
										}
										if pages >= 3 {
											c.Distinct("nontrivial", key)
											c.Count("walks_with_3_or_more_pages", 1)
										}
										if pages >= 2 {
											c.Count("walks_with_2_or_more_pages", 1)
										}
									})
									c.Count("evaluations", 1)
									c.Count("transitions", int64(reqs))
									if sig != "" {
										c.Fail(sig, msg, g)
									}
									if sz == tot/2 && tpl == 1 && mn == 1 && b == 3 && !long && len(rows) == maxRows {
										c.Sample(g)
									}
								}
							}
						}
					}
				}
			}
			if c.TimeUp() {
				return
			}
		}
	}
}
