package checks

import (
	"encoding/json"
	"fmt"

	"git.defalsify.org/vise.git/engine"
	"git.defalsify.org/vise.git/resource"

	"verif/app"
	"verif/codec"
	"verif/mc"
	"verif/ref"
)

// C18 — the selected language reaches every lookup and survives the session.

func init() {
	register(&mc.Check{
		ID:    "C18",
		Level: "model_checking",
		Rule: "applications with language switches before the first HALT, while handling input at the entry node, in a child node and immediately before the end x switch answers {nor,no,eng,swa,fre (639-2/B),xx,norsk with LANG; nor without LANG} chosen per call x Config.Language {'',nor} x translations present for every subset of {entry template, child template, menu label + static symbol} x all input histories up to depth d x {long-lived, persisted-mem, persisted-fs}; " +
			"reference VM in lockstep (current language = config, then last valid code; rendered text = translation where present, default otherwise; external functions receive the language) plus: every template/menu/function lookup of a request carries the language current before or after that request, and render-time lookups carry the one after it; states = distinct (app, position, language); non-trivial = executions with >=2 effective switches or an invalid code after a valid one",
		Assumptions: []string{"an empty language code with LANG set is outside the alphabet (the code treats it as reset; the statement does not cover it)", "three resources: the harness's recording in-memory resource (per-lookup language check) and the library's resource.DbResource over db/mem and over db/fs with translations stored as <symbol>_<code> (rendered text only); and resource.PoResource over gettext catalogues written to a scratch directory (rendered text only)"},
		Run:         c18Run,
		Replay:      c18Replay,
		MinItems:    50,
	})
}

type c18Spec struct {
	Early   bool   `json:"switch_before_first_halt"`
	CfgLang string `json:"config_language"`
	Trans   int    `json:"translations_subset"` // bit0 entry template, bit1 child template, bit2 menu label
}

type c18Witness struct {
	Spec    c18Spec `json:"spec"`
	Opts    lsOpts  `json:"opts"`
	Choices []int   `json:"choices"`
	Depth   int     `json:"depth"`
}

type c18Answer struct {
	code string
	flag bool
}

// swh (Swahili, the individual language) has an ISO 639-3 code only - no 639-1/-2 code
var c18Answers = []c18Answer{{"nor", true}, {"no", true}, {"eng", true}, {"swa", true}, {"xx", true}, {"norsk", true}, {"nor", false}, {"fre", true}, {"swh", true}}

func c18App(sp c18Spec) *app.App {
	a := app.New("lang")
	var root []codec.Ins
	if sp.Early {
		root = append(root, codec.Ins{Op: codec.LOAD, Sym: "sw0", N: 0})
	}
	root = append(root, codec.Ins{Op: codec.LOAD, Sym: "stat", N: 24}, codec.Ins{Op: codec.LOAD, Sym: "greet", N: 12}, codec.Ins{Op: codec.MAP, Sym: "greet"}, codec.Ins{Op: codec.MOUT, Sym: "lbl", Sel: "1"}, codec.Ins{Op: codec.MOUT, Sym: "chg", Sel: "2"},
		codec.Ins{Op: codec.MOUT, Sym: "end", Sel: "3"}, codec.Ins{Op: codec.HALT}, codec.Ins{Op: codec.INCMP, Sym: "child", Sel: "1"}, codec.Ins{Op: codec.INCMP, Sym: "sw1", Sel: "2"}, codec.Ins{Op: codec.INCMP, Sym: "fin", Sel: "3"})
	a.Node("root", "root {{.greet}}", root...)
	a.Node("sw1", "sw1", codec.Ins{Op: codec.LOAD, Sym: "sw1f", N: 0}, codec.Ins{Op: codec.MOVE, Sym: "_"})
	if sp.Early {
		// a second and later selection with the selector symbol still loaded is made by RELOAD
		a.Node("rs", "rs", codec.Ins{Op: codec.RELOAD, Sym: "sw0"}, codec.Ins{Op: codec.MOVE, Sym: "_"})
		a.Nodes["root"].Code = append(a.Nodes["root"].Code, codec.Ins{Op: codec.INCMP, Sym: "rs", Sel: "4"})
	}
	a.Static = map[string]string{"stat": "static text"}
	if sp.Trans&4 != 0 {
		a.StaticLang = map[string]map[string]string{"nor": {"stat": "statisk tekst"}, "swa": {"stat": "maandishi"}, "eng": {"stat": "english text"}, "swh": {"stat": "maandishi (swh)"}}
	}
	a.Node("child", "child {{.cg}} {{.stat}}", codec.Ins{Op: codec.LOAD, Sym: "cg", N: 12}, codec.Ins{Op: codec.MAP, Sym: "cg"}, codec.Ins{Op: codec.RELOAD, Sym: "stat"}, codec.Ins{Op: codec.MOUT, Sym: "back", Sel: "0"}, codec.Ins{Op: codec.MOUT, Sym: "lbl", Sel: "2"},
		codec.Ins{Op: codec.HALT}, codec.Ins{Op: codec.INCMP, Sym: "_", Sel: "0"}, codec.Ins{Op: codec.INCMP, Sym: "sw2", Sel: "2"})
	a.Node("sw2", "sw2", codec.Ins{Op: codec.LOAD, Sym: "sw2f", N: 0}, codec.Ins{Op: codec.MOVE, Sym: "_"})
	a.Node("fin", "bye", codec.Ins{Op: codec.LOAD, Sym: "swf", N: 0}, codec.Ins{Op: codec.RELOAD, Sym: "greet"}, codec.Ins{Op: codec.HALT})
	a.Node("_catch", "catch", codec.Ins{Op: codec.HALT}, codec.Ins{Op: codec.INCMP, Sym: "_", Sel: "*"})
	// eng is the library's default language: its translations are translations like any other
	for _, l := range []string{"nor", "swa", "eng", "swh"} {
		if sp.Trans&1 != 0 {
			if a.Nodes["root"].TplLang == nil {
				a.Nodes["root"].TplLang = map[string]string{}
			}
			a.Nodes["root"].TplLang[l] = "root/" + l + " {{.greet}}"
			if a.Nodes["fin"].TplLang == nil {
				a.Nodes["fin"].TplLang = map[string]string{}
			}
			a.Nodes["fin"].TplLang[l] = "bye/" + l
		}
		if sp.Trans&2 != 0 {
			if a.Nodes["child"].TplLang == nil {
				a.Nodes["child"].TplLang = map[string]string{}
			}
			a.Nodes["child"].TplLang[l] = "child/" + l + " {{.cg}}"
		}
		if sp.Trans&4 != 0 {
			// lbl has a default text of its own; chg is shown as it is in the default language (no entry) but is translated
			a.MenusLang[l] = map[string]string{"lbl": "label/" + l, "chg": "chg/" + l}
		}
	}
	a.Menus["lbl"] = "label"
	greet := func(e *app.Env, sym string, in []byte, l string) (resource.Result, error) {
		return resource.Result{Content: "hi-" + l}, nil
	}
	a.Func("greet", greet).Func("cg", greet)
	sw := func(e *app.Env, sym string, in []byte, l string) (resource.Result, error) {
		k := fmt.Sprintf("ans:%s:%d", sym, e.Counts[sym])
		alt := e.Pick(k, len(c18Answers))
		an := c18Answers[alt]
		r := resource.Result{Content: an.code}
		if an.flag {
			r.FlagSet = []uint32{7}
		}
		return r, nil
	}
	a.Func("sw0", sw).Func("sw1f", sw).Func("sw2f", sw).Func("swf", sw)
	a.WithInputs("1", "2", "0", "3")
	if sp.Early {
		a.WithInputs("1", "2", "0", "3", "4")
	}
	return a
}

func c18Exec(sp c18Spec, o lsOpts, depth int, x *mc.Chooser, c *mc.Ctx) (sig, msg string, reqs int) {
	a := c18App(sp)
	o.Cfg = engine.Config{Language: sp.CfgLang}
	answers := map[string]int{}
	pick := func(label string, n int) int {
		if v, ok := answers[label]; ok {
			return v
		}
		v := x.Choose(n, true, label)
		answers[label] = v
		return v
	}
	// the history is chosen request by request
	inputs := []string{""}
	for k := 1; k <= depth; k++ {
		inputs = append(inputs, a.Inputs[x.Choose(len(a.Inputs), false, fmt.Sprintf("input%d", k))])
	}
	switches := 0
	prevLang := ""
	if c, ok := ref.ValidLang(sp.CfgLang); ok {
		prevLang = c
	}
	var lsig, lmsg string
	sig, msg, reqs = lockstepEnv(a, o, inputs, pick, func(k int, rv *ref.VM, got app.Resp, want ref.Resp) {
		after := rv.Lang
		for _, cl := range got.Calls {
			if cl.Kind == "code" {
				continue
			}
			if cl.Lang != prevLang && cl.Lang != after {
				lsig, lmsg = "lookup-in-wrong-language", fmt.Sprintf("request %d inputs %q: %s made in language %q; current language was %q before and %q after this request", k, inputs[:k+1], cl.String(), cl.Lang, prevLang, after)
			}
			if (cl.Kind == "tpl" || cl.Kind == "menu") && cl.Lang != after && lsig == "" {
				lsig, lmsg = "render-lookup-in-stale-language", fmt.Sprintf("request %d inputs %q: %s made in language %q, the session's language is %q", k, inputs[:k+1], cl.String(), cl.Lang, after)
			}
		}
		if after != prevLang {
			switches++
		}
		prevLang = after
		if c != nil {
			c.Distinct("states", fmt.Sprint(sp), rv.Nav.Path(), after)
		}
	})
	if sig == "" && lsig != "" {
		sig, msg = lsig, lmsg
	}
	if c != nil && switches >= 2 {
		c.Distinct("nontrivial", fmt.Sprint(sp), o.Mode, o.Backend, fmt.Sprint(x.Choices))
		c.Count("executions_with_two_or_more_effective_switches", 1)
	}
	return
}

func c18Replay(w json.RawMessage) (string, string) {
	var wit c18Witness
	if err := json.Unmarshal(w, &wit); err != nil {
		return "bad-witness", err.Error()
	}
	var sig, msg string
	mc.Replay(wit.Choices, func(x *mc.Chooser) { sig, msg, _ = c18Exec(wit.Spec, wit.Opts, wit.Depth, x, nil) })
	return sig, msg
}

func c18Run(c *mc.Ctx) {
	depth, dev := 3, 2
	subsets := []int{0, 7, 1, 4}
	if c.Thorough() {
		depth, dev = 4, 2
		subsets = []int{0, 1, 2, 3, 4, 5, 6, 7}
	}
	c.Note("history_depth", fmt.Sprint(depth))
	c.Note("non_default_switch_answers_per_execution", fmt.Sprint(dev))
	// the last two serve the application through the library's resource.DbResource over db/mem
	backends := []lsOpts{{Mode: "long-lived"}, {Mode: "persisted", Backend: "mem"}, {Mode: "long-lived", DbRes: true}, {Mode: "long-lived", PoRes: true}, {Mode: "kept-state"}, {Mode: "long-lived", DbResFs: true}, {Mode: "persisted", Backend: "mem", First: true}}
	if c.Thorough() {
		backends = append(backends, lsOpts{Mode: "persisted", Backend: "fs"}, lsOpts{Mode: "persisted", Backend: "mem", DbRes: true})
	}
	for _, early := range []bool{false, true} {
		for _, cl := range []string{"", "nor"} {
			for _, tr := range subsets {
				sp := c18Spec{early, cl, tr}
				for _, o := range backends {
					for first := 0; first < len(c18App(sp).Inputs); first++ {
						if !c.Mine() {
							continue
						}
						o := o
						mc.Explore([]int{first}, dev, c.TimeUp, func(x *mc.Chooser) {
							sig, msg, reqs := c18Exec(sp, o, depth, x, c)
							c.Count("evaluations", 1)
							c.Count("transitions", int64(reqs))
							if sig != "" {
								c.Fail(sig, msg, c18Witness{Spec: sp, Opts: o, Choices: append([]int(nil), x.Choices...), Depth: depth})
							}
						})
					}
				}
				if tr == 7 && early {
					c.Sample(map[string]any{"app": c18App(sp).Describe(), "config_language": cl, "switch_answers": "nor,no,eng,swa,xx,norsk (+LANG), nor (no LANG)"})
				}
			}
		}
	}
}
