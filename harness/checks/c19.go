package checks

import (
	"bytes"
	"context"
	"encoding/json"
	"fmt"
	"os"
	"os/exec"
	"path/filepath"
	"sort"
	"strings"
	"sync"

	"git.defalsify.org/vise.git/db"
	"git.defalsify.org/vise.git/engine"
	"git.defalsify.org/vise.git/lang"
	"git.defalsify.org/vise.git/logging"
	"git.defalsify.org/vise.git/persist"
	"git.defalsify.org/vise.git/resource"
	"git.defalsify.org/vise.git/state"
	"git.defalsify.org/vise.git/vm"

	"verif/app"
	"verif/codec"
	"verif/mc"
	"verif/sched"
)

// C19 — independent sessions can be served concurrently without interference.

func init() {
	register(&mc.Check{
		ID:    "C19",
		Level: "model_checking",
		Rule: "2-3 sessions x 2-4 requests each, every session a goroutine with its own engine, state, cache and store handle, sharing only the application data (code slices handed out as an in-memory resource holds them, with spare capacity, and as exact-capacity control); a cooperative scheduler offers a scheduling choice before every request, at every VM instruction (verif hook), at every resource callback and at every store Put/Get; ALL schedules with at most P pre-emptions are enumerated (iterative bounding 0..P, stateless DFS with replay, no partial-order reduction); " +
			"oracle: every session's transcript equals its solo transcript under every schedule, the application data (every code slice up to its CAPACITY, templates, labels) and the library's package-level variables are unchanged after every execution, the same schedule replayed gives the same observations; separately the same session bodies run free under the race detector (sampling complement, reported as such); states = distinct schedules (thread-choice traces); non-trivial = schedules with at least one pre-emption inside a request",
		Assumptions:         []string{"memory-model effects and unsynchronised accesses confined to one VM instruction are only seen by the separate free-running -race pass, which samples", "no partial-order reduction: independence of sessions is what is being tested"},
		Run:                 c19Run,
		Replay:              c19Replay,
		UnstableIsViolation: true,
		MinItems:            10,
	})
}

type c19Scenario struct {
	Name     string
	Build    func(slack int) *app.App
	Sessions [][]string
	Mode     string // long-lived | persisted-mem | persisted-fs
	Size     uint32
	Lang     string   // Config.Language
	Langs    []string // Config.Language per session (overrides Lang): sessions in different languages
	Res      string   // "" = the harness's recording resource; "menu" = resource.MenuResource with per-session closures
	First    bool     // every engine gets a first function (engine.WithFirst) that does nothing
}

// shortCatchApp: a catch node of 6 bytes of code (HALT; MOVE ^), as examples/http has it, and a page whose
// template fails after it has produced text (it names a symbol that is not mapped there).
func shortCatchApp(slack int) *app.App {
	a := app.New("shortcatch")
	a.Node("root", "root", codec.Ins{Op: codec.MOUT, Sym: "la", Sel: "1"}, codec.Ins{Op: codec.MOUT, Sym: "lb", Sel: "2"}, codec.Ins{Op: codec.HALT},
		codec.Ins{Op: codec.INCMP, Sym: "aa", Sel: "1"}, codec.Ins{Op: codec.INCMP, Sym: "acct", Sel: "2"})
	a.Node("aa", "at aa", codec.Ins{Op: codec.MOUT, Sym: "back", Sel: "0"}, codec.Ins{Op: codec.HALT}, codec.Ins{Op: codec.INCMP, Sym: "_", Sel: "0"})
	a.Node("acct", "account of {{.owner}}: {{.balance}}", codec.Ins{Op: codec.LOAD, Sym: "owner", N: 20}, codec.Ins{Op: codec.MAP, Sym: "owner"}, codec.Ins{Op: codec.MOUT, Sym: "back", Sel: "0"}, codec.Ins{Op: codec.HALT},
		codec.Ins{Op: codec.INCMP, Sym: "_", Sel: "0"})
	a.Node("_catch", "oops", codec.Ins{Op: codec.HALT}, codec.Ins{Op: codec.MOVE, Sym: "^"})
	a.Func("owner", func(e *app.Env, sym string, in []byte, l string) (resource.Result, error) {
		return resource.Result{Content: fmt.Sprintf("owner%d", e.Counts[sym])}, nil
	})
	a.SharedCode = true
	a.CodeSlack = slack
	return a
}

func hubApp(slack int) *app.App {
	a := app.New("hub")
	a.FlagCount = 2
	a.Node("root", "root", codec.Ins{Op: codec.LOAD, Sym: "setf", N: 0}, codec.Ins{Op: codec.CATCH, Sym: "hub", N: 8, Mode: true}, codec.Ins{Op: codec.HALT})
	a.Node("hub", "hub", codec.Ins{Op: codec.MOUT, Sym: "la", Sel: "1"}, codec.Ins{Op: codec.MOUT, Sym: "lb", Sel: "2"}, codec.Ins{Op: codec.HALT},
		codec.Ins{Op: codec.INCMP, Sym: "aa", Sel: "1"}, codec.Ins{Op: codec.INCMP, Sym: "bb", Sel: "2"})
	a.Node("aa", "at aa", codec.Ins{Op: codec.MOUT, Sym: "back", Sel: "0"}, codec.Ins{Op: codec.HALT}, codec.Ins{Op: codec.INCMP, Sym: "_", Sel: "0"})
	a.Node("bb", "at bb", codec.Ins{Op: codec.MOUT, Sym: "back", Sel: "0"}, codec.Ins{Op: codec.HALT}, codec.Ins{Op: codec.INCMP, Sym: "_", Sel: "0"})
	a.Node("_catch", "catch", codec.Ins{Op: codec.HALT}, codec.Ins{Op: codec.INCMP, Sym: "_", Sel: "*"})
	a.Func("setf", func(e *app.Env, sym string, in []byte, l string) (resource.Result, error) {
		return resource.Result{FlagSet: []uint32{8}}, nil
	})
	a.SharedCode = true
	a.CodeSlack = slack
	return a
}

func moveApp(slack int) *app.App {
	a := app.New("moves")
	a.Node("root", "root", codec.Ins{Op: codec.MOVE, Sym: "hub"})
	a.Node("hub", "hub {{.vv}}", codec.Ins{Op: codec.LOAD, Sym: "vv", N: 8}, codec.Ins{Op: codec.MAP, Sym: "vv"}, codec.Ins{Op: codec.MOUT, Sym: "la", Sel: "1"}, codec.Ins{Op: codec.HALT},
		codec.Ins{Op: codec.INCMP, Sym: "aa", Sel: "1"}, codec.Ins{Op: codec.INCMP, Sym: "bb", Sel: "2"}, codec.Ins{Op: codec.INCMP, Sym: ".", Sel: "5"})
	a.Node("aa", "at aa {{.vv}}", codec.Ins{Op: codec.RELOAD, Sym: "vv"}, codec.Ins{Op: codec.MOUT, Sym: "back", Sel: "0"}, codec.Ins{Op: codec.HALT}, codec.Ins{Op: codec.INCMP, Sym: "_", Sel: "0"})
	a.Node("bb", "at bb", codec.Ins{Op: codec.MOUT, Sym: "back", Sel: "0"}, codec.Ins{Op: codec.HALT}, codec.Ins{Op: codec.INCMP, Sym: "_", Sel: "0"}, codec.Ins{Op: codec.INCMP, Sym: "^", Sel: "9"})
	a.Node("_catch", "catch", codec.Ins{Op: codec.HALT}, codec.Ins{Op: codec.INCMP, Sym: "_", Sel: "*"})
	a.Func("vv", func(e *app.Env, sym string, in []byte, l string) (resource.Result, error) {
		return resource.Result{Content: fmt.Sprintf("v%d<%s>", e.Counts[sym], in)}, nil
	})
	a.SharedCode = true
	a.CodeSlack = slack
	return a
}

func pagedShared(slack int) *app.App {
	a := c02App(c02Cfg{Rows: []string{"aaa", "bb", "cccc", "d"}, Tpl: 1, Menu: 1, Next: true, Prev: true})
	a.Node("fin", "bye", codec.Ins{Op: codec.HALT})
	a.Nodes["root"].Code = append(a.Nodes["root"].Code, codec.Ins{Op: codec.INCMP, Sym: "fin", Sel: "0"})
	a.SharedCode = true
	a.CodeSlack = slack
	return a
}

// pagedLangShared: a paginated page whose browse entries are labels that the resource translates - to texts of
// different lengths in different languages, so that the page breaks depend on the session's language.
func pagedLangShared(slack int) *app.App {
	a := c02App(c02Cfg{Rows: []string{"aaa", "bb", "cccc", "d", "eee", "ff", "g", "hhh", "ii", "jjjj", "k", "ll"}, Tpl: 1, Menu: 1, Next: true, Prev: true, XLbl: true})
	a.MenusLang["nor"] = map[string]string{"nx": "neste", "pv": "forrige"}
	a.SharedCode = true
	a.CodeSlack = slack
	return a
}

// langShared: sessions with a configured language; one of them switches to another language.
func langShared(slack int) *app.App {
	a := c18App(c18Spec{Early: false, CfgLang: "nor", Trans: 7})
	sw := func(e *app.Env, sym string, in []byte, l string) (resource.Result, error) {
		return resource.Result{Content: "swa", FlagSet: []uint32{7}}, nil
	}
	a.Func("sw0", sw).Func("sw1f", sw).Func("sw2f", sw).Func("swf", sw)
	a.SharedCode = true
	a.CodeSlack = slack
	return a
}

var c19Scenarios = []c19Scenario{
	{Name: "language-switch-next-to-configured-language-persisted-fs", Build: langShared, Sessions: [][]string{{"", "2", "1"}, {"", "1", "0"}}, Mode: "persisted-fs", Lang: "nor"},
	{Name: "language-switch-next-to-configured-language-persisted-mem", Build: langShared, Sessions: [][]string{{"", "2"}, {"", "1"}, {"", "1"}}, Mode: "persisted-mem", Lang: "nor"},
	{Name: "hub-via-catch-2x3-long-lived", Build: hubApp, Sessions: [][]string{{"", "1", "0"}, {"", "2", "0"}}, Mode: "long-lived"},
	{Name: "hub-via-catch-2x3-persisted-fs", Build: hubApp, Sessions: [][]string{{"", "1", "0"}, {"", "2", "0"}}, Mode: "persisted-fs"},
	{Name: "moves-2x3-long-lived", Build: moveApp, Sessions: [][]string{{"", "1", "0"}, {"", "2", "9"}}, Mode: "long-lived"},
	{Name: "moves-3x2-persisted-fs", Build: moveApp, Sessions: [][]string{{"", "1"}, {"", "2"}, {"", "5"}}, Mode: "persisted-fs"},
	{Name: "moves-2x3-persisted-mem", Build: moveApp, Sessions: [][]string{{"", "1", "0"}, {"", "zz", "1"}}, Mode: "persisted-mem"},
	{Name: "moves-2x3-menu-resource", Build: moveApp, Sessions: [][]string{{"", "1", "0"}, {"", "1", "1"}}, Mode: "long-lived", Res: "menu"},
	{Name: "short-catch-code-2x3", Build: shortCatchApp, Sessions: [][]string{{"", "zz", "1"}, {"", "9", "zz"}}, Mode: "long-lived"},
	{Name: "failing-template-next-to-a-page-2x3", Build: shortCatchApp, Sessions: [][]string{{"", "2", "0"}, {"", "1", "0"}}, Mode: "long-lived"},
	{Name: "first-function-2x2-persisted-mem", Build: moveApp, Sessions: [][]string{{"", "1"}, {"", "2"}}, Mode: "persisted-mem", First: true},
	{Name: "same-sink-browse-2x3", Build: pagedShared, Sessions: [][]string{{"", "11", "11"}, {"", "11", "22"}}, Mode: "long-lived", Size: 26},
	{Name: "browse-in-two-languages-2x3", Build: pagedLangShared, Sessions: [][]string{{"", "11", "11"}, {"", "11", "22"}}, Mode: "long-lived", Size: 60, Langs: []string{"", "nor"}},
	{Name: "one-ends-one-browses-2x3", Build: pagedShared, Sessions: [][]string{{"", "0"}, {"", "11", "11"}}, Mode: "persisted-fs", Size: 26},
}

type c19Witness struct {
	Scenario string `json:"scenario"`
	Slack    int    `json:"code_slice_spare_capacity"`
	Choices  []int  `json:"schedule_choices"`
	Trace    []int  `json:"thread_trace,omitempty"`
}

type yieldDb struct {
	db.Db
	y func(string)
}

func (d yieldDb) Put(ctx context.Context, k, v []byte) error {
	d.y("put")
	return d.Db.Put(ctx, k, v)
}
func (d yieldDb) Get(ctx context.Context, k []byte) ([]byte, error) {
	d.y("get")
	return d.Db.Get(ctx, k)
}

// c19Serve is one session's body: it serves its inputs and returns its transcript.
func c19Serve(sc c19Scenario, a *app.App, id string, inputs []string, dir string, yield func(string)) (tr []string) {
	env := app.NewEnv()
	env.Yield = yield
	var res resource.Resource = &app.Res{App: a, Env: env}
	if sc.Res == "menu" {
		res = app.NewMenuRes(&app.Res{App: a, Env: env})
	}
	cfg := engine.Config{SessionId: id, OutputSize: sc.Size, FlagCount: a.FlagCount, Root: a.Root, Language: sc.Lang}
	if len(sc.Langs) > 0 {
		var n int
		fmt.Sscanf(id, "s%d", &n)
		cfg.Language = sc.Langs[n%len(sc.Langs)]
	}
	var en *engine.DefaultEngine
	var mem func() db.Db
	if sc.Mode == "persisted-mem" {
		mem = app.MemStore()
	}
	for _, in := range inputs {
		yield("request")
		func() {
			defer func() {
				if p := recover(); p != nil {
					tr = append(tr, fmt.Sprintf("panic: %v", p))
				}
			}()
			e := en
			if sc.Mode != "long-lived" || e == nil {
				e = engine.NewEngine(cfg, res)
				if sc.First {
					e = e.WithFirst(func(ctx context.Context, sym string, input []byte) (resource.Result, error) {
						return resource.Result{}, nil
					})
				}
				if sc.Mode != "long-lived" {
					var store db.Db
					if sc.Mode == "persisted-fs" {
						store = app.FsStore(dir, false)()
					} else {
						store = mem()
					}
					store.SetSession(id)
					e = e.WithPersister(persist.NewPersister(yieldDb{store, yield}))
				} else {
					en = e
				}
			}
			ctx := context.Background()
			cont, err := e.Exec(ctx, []byte(in))
			var w bytes.Buffer
			var ferr, fin error
			if err == nil {
				_, ferr = e.Flush(ctx, &w)
			}
			fin = e.Finish(ctx)
			tr = append(tr, fmt.Sprintf("in=%q out=%q cont=%v execerr=%v flusherr=%v finisherr=%v", in, w.String(), cont, err != nil, ferr != nil, fin != nil))
		}()
	}
	return
}

func appData(a *app.App) string {
	var sb strings.Builder
	for _, n := range a.NodeNames() {
		b, _ := a.Code(n)
		fmt.Fprintf(&sb, "%s:%x|%q;", n, b[:cap(b)], a.Nodes[n].Tpl)
	}
	ks := make([]string, 0, len(a.Menus))
	for k, v := range a.Menus {
		ks = append(ks, k+"="+v)
	}
	sort.Strings(ks)
	sb.WriteString(strings.Join(ks, ","))
	return sb.String()
}

func globalsKey() string {
	all := bytes.Repeat([]byte{0xff}, 4)
	return fmt.Sprintf("maxlevel=%d langdefault=%s logwriter=%p debugger=%s", state.MaxLevel, lang.Default, logging.LogWriter, state.FlagDebugger.AsString(all, 24))
}

var c19Solo = map[string][][]string{}

// C19SoloOne serves session n of a scenario alone in this (fresh) process and prints its transcript.
func C19SoloOne(name string, n int) int {
	sc, ok := c19Find(name)
	if !ok || n >= len(sc.Sessions) {
		return 2
	}
	a := sc.Build(0)
	dir, _ := os.MkdirTemp(mc.Scratch(), "c19one")
	defer os.RemoveAll(dir)
	tr := c19Serve(sc, a, fmt.Sprintf("s%d", n), sc.Sessions[n], dir, func(string) {})
	b, _ := json.Marshal(tr)
	fmt.Println(string(b))
	return 0
}

// c19FreshProcess: "served one after another" must not depend on what the process served before. Every session of
// the scenario is served alone in a pristine process of its own; its transcript must equal the one it gets in this
// process, where the other sessions of the scenario (and every earlier scenario) have been served before it.
func c19FreshProcess(sc c19Scenario) (sig, msg string, n int) {
	here := c19SoloTranscripts(sc, 0)
	for i := range sc.Sessions {
		out, err := exec.Command(os.Args[0], "c19-solo", sc.Name, fmt.Sprint(i)).Output()
		if err != nil {
			return "", "", n // the helper could not be run: nothing is concluded
		}
		var fresh []string
		if json.Unmarshal(bytes.TrimSpace(out), &fresh) != nil {
			return "", "", n
		}
		n++
		if fmt.Sprint(fresh) != fmt.Sprint(here[i]) {
			return "transcript-depends-on-what-the-process-served-before", fmt.Sprintf("scenario %s session %d: served alone in a fresh process it answers %q; served alone in a process that has served other sessions before it answers %q (process-wide state in the library)", sc.Name, i, fresh, here[i]), n
		}
	}
	return "", "", n
}

func c19SoloTranscripts(sc c19Scenario, slack int) [][]string {
	k := fmt.Sprintf("%s/%d", sc.Name, slack)
	if t, ok := c19Solo[k]; ok {
		return t
	}
	var out [][]string
	for i, ins := range sc.Sessions {
		a := sc.Build(slack)
		dir, _ := os.MkdirTemp(mc.Scratch(), "c19solo")
		out = append(out, c19Serve(sc, a, fmt.Sprintf("s%d", i), ins, dir, func(string) {}))
		os.RemoveAll(dir)
	}
	c19Solo[k] = out
	return out
}

// c19SetFsYield is set by the overlay build (c19_overlay.go): it installs a scheduling point in front of
// every mutating file operation of db/fs. Without the overlay the store is only pre-empted between
// whole Put/Get calls.
var c19SetFsYield func(func())

// c19Exec runs one schedule.
func c19Exec(sc c19Scenario, slack int, x *mc.Chooser) (sig, msg string, trace []int, preempted bool) {
	a := sc.Build(slack)
	for _, n := range a.NodeNames() {
		a.Code(n)
	}
	before := appData(a)
	gBefore := globalsKey()
	dir, _ := os.MkdirTemp(mc.Scratch(), "c19run")
	defer os.RemoveAll(dir)
	s := sched.New(x)
	y := func(l string) { s.Yield(l) }
	vm.VerifPoint = func() { s.Yield("instr") }
	defer func() { vm.VerifPoint = nil }()
	if c19SetFsYield != nil {
		c19SetFsYield(func() { s.Yield("fsop") })
		defer c19SetFsYield(nil)
	}
	trs := make([][]string, len(sc.Sessions))
	var bodies []func()
	for i, ins := range sc.Sessions {
		i, ins := i, ins
		bodies = append(bodies, func() { trs[i] = c19Serve(sc, a, fmt.Sprintf("s%d", i), ins, dir, y) })
	}
	s.Run(bodies)
	trace = s.Trace
	preempted = x.Deviations() > 0
	if after := appData(a); after != before {
		return "application-data-modified", fmt.Sprintf("scenario %s (spare capacity %d): the shared application data changed during the run: the library wrote into a slice it was handed by the resource", sc.Name, slack), trace, preempted
	}
	if g := globalsKey(); g != gBefore {
		return "package-level-state-modified", fmt.Sprintf("scenario %s: package-level state changed: %s -> %s", sc.Name, gBefore, g), trace, preempted
	}
	solo := c19SoloTranscripts(sc, slack)
	for i := range trs {
		if !sameStrings(trs[i], solo[i]) {
			return "transcript-differs-from-solo", fmt.Sprintf("scenario %s (spare capacity %d) schedule %v: session %d answers %q, served alone it answers %q", sc.Name, slack, trace, i, trs[i], solo[i]), trace, preempted
		}
	}
	return "", "", trace, preempted
}

func c19Find(n string) (c19Scenario, bool) {
	for _, s := range c19Scenarios {
		if s.Name == n {
			return s, true
		}
	}
	return c19Scenario{}, false
}

func c19Replay(w json.RawMessage) (string, string) {
	var wit c19Witness
	if err := json.Unmarshal(w, &wit); err != nil {
		return "bad-witness", err.Error()
	}
	if strings.HasPrefix(wit.Scenario, "fresh-process:") {
		sc, ok := c19Find(strings.TrimPrefix(wit.Scenario, "fresh-process:"))
		if !ok {
			return "bad-witness", "scenario"
		}
		sig, msg, _ := c19FreshProcess(sc)
		return sig, msg
	}
	if wit.Scenario == "race-pass" {
		return c19Race(3)
	}
	sc, ok := c19Find(wit.Scenario)
	if !ok {
		return "bad-witness", "scenario"
	}
	var sig, msg string
	mc.Replay(wit.Choices, func(x *mc.Chooser) { sig, msg, _, _ = c19Exec(sc, wit.Slack, x) })
	return sig, msg
}

// C19FreeRun runs all scenarios free (no scheduler, hook nil) with real concurrency; used by the
// -race build (vcheck racepass <repetitions>).
func C19FreeRun(reps int) {
	for r := 0; r < reps; r++ {
		for _, sc := range c19Scenarios {
			for _, slack := range []int{48, 0} {
				a := sc.Build(slack)
				for _, n := range a.NodeNames() {
					a.Code(n) // build the shared slices before the sessions start (they only read them)
				}
				dir, _ := os.MkdirTemp(mc.Scratch(), "c19free")
				var wg sync.WaitGroup
				for i, ins := range sc.Sessions {
					wg.Add(1)
					go func(i int, ins []string) {
						defer wg.Done()
						c19Serve(sc, a, fmt.Sprintf("s%d", i), ins, dir, func(string) {})
					}(i, ins)
				}
				wg.Wait()
				os.RemoveAll(dir)
			}
		}
	}
}

// c19Race runs the separately built -race binary; a race report is a violation.
func c19Race(reps int) (string, string) {
	bin := os.Getenv("VERIF_RACE_BIN")
	if bin == "" {
		return "", ""
	}
	cmd := exec.Command(bin, "racepass", fmt.Sprint(reps))
	cmd.Env = append(os.Environ(), "GORACE=halt_on_error=1 exitcode=66", "VERIF_SCRATCH="+filepath.Join(mc.Scratch(), "race"))
	out, err := cmd.CombinedOutput()
	if strings.Contains(string(out), "DATA RACE") {
		o := string(out)
		if i := strings.Index(o, "WARNING: DATA RACE"); i >= 0 {
			o = o[i:]
		}
		if len(o) > 1500 {
			o = o[:1500]
		}
		return "data-race", "the free-running sessions race (go -race):\n" + o
	}
	if err != nil {
		return "race-pass-failed", fmt.Sprintf("race pass did not complete: %v: %.500s", err, out)
	}
	return "", ""
}

func c19Run(c *mc.Ctx) {
	bound := 2
	reps := 30
	if c.Thorough() {
		bound = 3
		reps = 300
	}
	c.Note("preemption_bound", fmt.Sprint(bound)+" (persisted scenarios: 2)")
	if c19SetFsYield != nil {
		c.Note("file_operation_scheduling_points", "yes (db/fs built against the os shim: create/write/close/rename of a save are separate scheduling points)")
	} else {
		c.Note("file_operation_scheduling_points", "no (overlay build not available: the store is pre-empted between whole Put/Get calls only)")
	}
	c.Note("scenarios", fmt.Sprint(len(c19Scenarios)))
	// the race pass (sampling complement)
	if c.Mine() {
		if os.Getenv("VERIF_RACE_BIN") == "" {
			c.Note("race_pass", "skipped: no -race binary available (VERIF_RACE_BIN unset)")
		} else {
			sig, msg := c19Race(reps)
			c.Note("race_pass", fmt.Sprintf("%d repetitions of every scenario free-running under -race", reps))
			c.Count("race_pass_repetitions", int64(reps))
			if sig != "" {
				c.Fail(sig, msg, c19Witness{Scenario: "race-pass"})
			}
		}
	}
	// every session served alone in a pristine process of its own vs. served alone in this process after others
	if c.Mine() {
		for _, sc := range c19Scenarios {
			sig, msg, n := c19FreshProcess(sc)
			c.Count("evaluations", int64(n))
			c.Count("sessions_compared_with_a_fresh_process", int64(n))
			if sig != "" {
				c.Fail(sig, msg, c19Witness{Scenario: "fresh-process:" + sc.Name})
			}
		}
	}
	for _, sc := range c19Scenarios {
		for _, slack := range []int{48, 0} {
			// shard on the first two scheduling choices
			nthreads := len(sc.Sessions)
			for c0 := 0; c0 < nthreads; c0++ {
				for c1 := 0; c1 < nthreads; c1++ {
					if !c.Mine() {
						continue
					}
					sc, slack := sc, slack
					bound := bound
					if bound > 2 && sc.Mode != "long-lived" {
						// with the store calls (and, on the filesystem, the file operations of every save) as
						// scheduling points these executions are several times longer: the persisted scenarios
						// stay at two pre-emptions in the thorough tier
						bound = 2
					}
					mc.Explore([]int{c0, c1}, bound, c.TimeUp, func(x *mc.Chooser) {
						defer func() {
							if r := recover(); r != nil {
								if strings.Contains(fmt.Sprint(r), "replay divergence") {
									return // this first-choice pair does not exist in the schedule tree
								}
								panic(r)
							}
						}()
						sig, msg, trace, pre := c19Exec(sc, slack, x)
						if x.Deviations() > bound {
							return // the forced prefix alone exceeds the bound
						}
						c.Count("evaluations", 1)
						c.Count("transitions", int64(len(trace)))
						c.Distinct("states", sc.Name, fmt.Sprint(slack), fmt.Sprint(trace))
						if pre {
							c.Distinct("nontrivial", sc.Name, fmt.Sprint(slack), fmt.Sprint(trace))
						}
						if sig != "" {
							c.Fail(sig, msg, c19Witness{Scenario: sc.Name, Slack: slack, Choices: append([]int(nil), x.Choices...), Trace: trace})
						}
					})
				}
			}
			if c.TimeUp() {
				return
			}
		}
		c.Sample(map[string]any{"scenario": sc.Name, "sessions": sc.Sessions, "mode": sc.Mode, "program": sc.Build(0).Describe()})
	}
}
