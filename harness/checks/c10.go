package checks

import (
	"encoding/base64"
	"encoding/json"
	"fmt"
	"os"
	"sort"
	"strconv"
	"strings"

	"git.defalsify.org/vise.git/db"

	"verif/mc"
	"verif/ref"
)

// C10 — every storage backend behaves as the same keyed map.
//
// Part A  all operation sequences of length d over the 26-letter alphabet, the same sequence applied to
//         every backend, each on fresh storage, stepped in lockstep with ref.KV. No pruning except that a
//         context setter which leaves the model context unchanged is not generated.
// Part B  the same alphabet explored deeper by explicit-state search over the reference's states, with the
//         real backend state read back after every transition (see c10b.go for the soundness argument).
// Part C  listing sweep on the filesystem backend: every stored set of <= 3 (session, key) entries from a
//         wider universe of well-formed keys, every session, every prefix.

func init() {
	register(&mc.Check{
		ID:    "C10",
		Level: "model_checking",
		Rule: "Part A: all sequences of exactly d operations (d=4 quick, 5 thorough; every shorter sequence is a prefix of one) over SetPrefix{BIN,TEMPLATE,STATICLOAD,STATE,USERDATA}, SetSession{'',ss,tt}, SetLanguage{nil,nor,eng}, SetLock(TEMPLATE,off|on), seal=SetLock(0,true|false), Put{foo,foob,Pfoo}x{'text',00ff}, Get{foo,foob,Pfoo}, Dump{'',fo} drained, " +
			"each applied to mem, fs (text) and fs (binary keys) on fresh storage and stepped in lockstep with a reference map keyed by (type, session if sessioned, key, language if translated); only reduction: a context setter that would not change the reference context is not generated. " +
			"After a refused Put the content is read back through a second handle (fs); after every sequence the lock state is probed (one Put per read-only type) and every stored or addressed entry, its default-language and its other-language variant are read back (second handle on fs, same handle on mem). " +
			"Part B: explicit-state search over reference states to depth D (7 quick, 8 thorough): each state is reached once by its shortest operation path on fresh backends, all 26 operations are applied and checked, and the raw backend state (handle context by reflection + directory/map content) is read back after every transition and compared with the raw state of the canonical representative; a mismatch is never a verdict: it is counted and the continuations below it are run statelessly (bounded; none occurs on the unchanged tree). " +
			"Part C: on fs text and binary, for every set of <=3 stored (session,key) entries over sessions {'',ss,tt} and a universe of well-formed keys, Dump under every session and every prefix must list exactly the reference's entries. " +
			"states = distinct reference states (context + content) reached; non-trivial = reference states holding at least one entry",
		Assumptions: []string{
			"the return value of SetLock on a sealed handle is not constrained, only that it has no effect (a Put to a read-only type stays refused)",
			"listing (Dump) is constrained only on the filesystem backend and only for the sessioned, untranslated types STATE and USERDATA; an empty listing may be reported as an error or as an empty iteration",
			"an empty language code and a language taken from the context value are not explored",
			"Part B pruning: a backend's response depends only on its handle context (prefix, session, lock mask, language, seal) and its storage content; fs handle fields elements/matchPrefix are overwritten by Dump before they are read, and every listing is drained at once",
		},
		Run:      c10Run,
		Replay:   c10Replay,
		MinItems: 200,
	})
}

var c10Keys = []string{"foo", "foob", "Pfoo"}
var c10Vals = []string{"text", "\x00\xff"}
var c10Sessions = []string{"", "ss", "tt"}
var c10Langs = []string{"", "nor", "eng"} // eng is the library's default language: a language like any other for the store

func c10Alphabet() []ref.KVOp {
	var a []ref.KVOp
	for _, t := range []uint8{ref.TBin, ref.TTemplate, ref.TStaticLoad, ref.TState, ref.TUserData} {
		a = append(a, ref.KVOp{Op: "prefix", Typ: t})
	}
	for _, s := range c10Sessions {
		a = append(a, ref.KVOp{Op: "session", Sess: ref.Bs(s)})
	}
	for _, l := range c10Langs {
		a = append(a, ref.KVOp{Op: "lang", Lang: l})
	}
	a = append(a, ref.KVOp{Op: "lock", Typ: ref.TTemplate, On: false}, ref.KVOp{Op: "lock", Typ: ref.TTemplate, On: true}, ref.KVOp{Op: "lock", Typ: 0, On: true}, ref.KVOp{Op: "lock", Typ: 0, On: false})
	for _, k := range c10Keys {
		for _, v := range c10Vals {
			a = append(a, ref.KVOp{Op: "put", Key: ref.Bs(k), Val: ref.Bs(v)})
		}
	}
	for _, k := range c10Keys {
		a = append(a, ref.KVOp{Op: "get", Key: ref.Bs(k)})
	}
	for _, p := range []string{"", "fo"} {
		a = append(a, ref.KVOp{Op: "dump", Key: ref.Bs(p)})
	}
	return a
}

type c10Stored struct {
	Typ  uint8  `json:"typ"`
	Sess ref.Bs `json:"sess"`
	Key  ref.Bs `json:"key"`
}

type c10Witness struct {
	Part    string      `json:"part"` // seq | dump
	Backend string      `json:"backend"`
	Sig     string      `json:"sig"` // the signature this witness was recorded for
	Ops     []ref.KVOp  `json:"ops,omitempty"`
	Stored  []c10Stored `json:"stored,omitempty"`
	Typ     uint8       `json:"typ,omitempty"`
	Sess    ref.Bs      `json:"sess,omitempty"`
	Prefix  ref.Bs      `json:"prefix,omitempty"`
}

type kvViol struct {
	Sig, Msg string
}

// ---- representation knowledge, used ONLY to give a behavioural violation a specific signature

func fsConcat(b kvBackend, c ref.Cell) string {
	k := c.Key
	if b.Binary {
		k = base64.StdEncoding.EncodeToString([]byte(c.Key))
	}
	if ref.Sessioned(c.Typ) && c.Sess != "" {
		k = c.Sess + "." + k
	}
	if ref.Translated(c.Typ) && c.Lang != "" {
		k += "_" + c.Lang
	}
	return k
}

func fsPrimaryName(b kvBackend, c ref.Cell) string {
	return string([]byte{c.Typ + 0x30}) + fsConcat(b, c)
}

func fsLegacyName(b kvBackend, c ref.Cell) string {
	n := fsConcat(b, c)
	if c.Typ == ref.TBin {
		n += ".bin"
	}
	return n
}

// c10LegacyCulprit: on fs, is there a stored entry other than the ones the read may legitimately
// return whose primary file name equals a legacy fallback name of the entry being read, holding the value seen?
func c10LegacyCulprit(b kvBackend, m *ref.KV, rd ref.Cell, seen string) (ref.Cell, bool) {
	if b.Kind != "fs" {
		return ref.Cell{}, false
	}
	def := rd
	def.Lang = ""
	legacy := map[string]bool{fsLegacyName(b, rd): true, fsLegacyName(b, def): true}
	for _, c := range m.AllCells() {
		if c == rd || c == def {
			continue
		}
		if legacy[fsPrimaryName(b, c)] {
			if v, _ := m.Lookup(c.Typ, c.Sess, c.Lang, c.Key); v == seen {
				return c, true
			}
		}
	}
	return ref.Cell{}, false
}

// c10CheckRead compares one Get with the reference. rd is the cell addressed (with the context's language).
func c10CheckRead(b kvBackend, m *ref.KV, rd ref.Cell, obs kvObs, where string) *kvViol {
	if obs.Panic != "" {
		return &kvViol{"panic-get@" + b.Name, fmt.Sprintf("%s: Get panicked: %s", where, obs.Panic)}
	}
	want, found := m.Lookup(rd.Typ, rd.Sess, rd.Lang, rd.Key)
	if found {
		if obs.Err != nil {
			if obs.NotFound {
				return &kvViol{"get-misses-stored-entry@" + b.Name, fmt.Sprintf("%s: %s holds %q but Get reports not-found", where, rd, want)}
			}
			return &kvViol{"get-fails-on-stored-entry@" + b.Name, fmt.Sprintf("%s: %s holds %q but Get fails: %v", where, rd, want, obs.Err)}
		}
		if string(obs.Val) != want {
			if c, ok := c10LegacyCulprit(b, m, rd, string(obs.Val)); ok {
				return &kvViol{"fs-legacy-name-collision@" + b.Name, fmt.Sprintf("%s: %s should read %q but returns %q, the value of %s (legacy fallback file name = that entry's file name)", where, rd, want, obs.Val, c)}
			}
			return &kvViol{"get-wrong-value@" + b.Name, fmt.Sprintf("%s: %s should read %q (latest write) but returns %q", where, rd, want, obs.Val)}
		}
		return nil
	}
	if obs.Err == nil {
		if c, ok := c10LegacyCulprit(b, m, rd, string(obs.Val)); ok {
			return &kvViol{"fs-legacy-name-collision@" + b.Name, fmt.Sprintf("%s: %s was never written but Get returns %q, the value of %s (legacy fallback file name = that entry's file name)", where, rd, obs.Val, c)}
		}
		return &kvViol{"get-finds-unwritten-entry@" + b.Name, fmt.Sprintf("%s: %s was never written but Get returns %q", where, rd, obs.Val)}
	}
	if !obs.NotFound {
		return &kvViol{"missing-entry-not-recognisable@" + b.Name, fmt.Sprintf("%s: %s was never written; Get fails but db.IsNotFound is false: %v", where, rd, obs.Err)}
	}
	return nil
}

// c10CheckDump compares a drained listing with the reference for a sessioned type.
// names is the backend's raw entry order (classification only).
func c10CheckDump(b kvBackend, m *ref.KV, typ uint8, sess, prefix string, obs kvObs, names []string, where string) *kvViol {
	if obs.Panic != "" {
		return &kvViol{"panic-dump@" + b.Name, fmt.Sprintf("%s: Dump panicked: %s", where, obs.Panic)}
	}
	if !b.HasDump {
		return nil
	}
	rsig := ""
	if !ref.Sessioned(typ) {
		// a resource type (stored without session, possibly with translations): what a listing shows of a key that has
		// translations is not defined anywhere - constrained only while no translation of this type is stored and no
		// language is selected; the session set on the handle is not part of such an entry's identity
		if m.Lang != "" {
			return nil
		}
		for _, c := range m.AllCells() {
			if c.Typ == typ && c.Lang != "" {
				return nil
			}
		}
		if sess != "" {
			rsig = "-of-resource-type-under-session"
		}
		sess = ""
	}
	exp := m.List(typ, sess, prefix)
	desc := fmt.Sprintf("Dump(%q) under %s session=%q", prefix, ref.TypName(typ), m.Sess)
	if obs.Err != nil {
		if len(exp) == 0 {
			return nil
		}
		return &kvViol{"dump-fails-with-stored-entries" + rsig + "@" + b.Name, fmt.Sprintf("%s: %s fails (%v) although %d entries are stored: %v", where, desc, obs.Err, len(exp), sortedKeys(exp))}
	}
	seen := map[string]int{}
	for _, p := range obs.List {
		seen[p.K]++
		want, ok := exp[p.K]
		if !ok {
			// extra entry
			if sess == "" {
				for _, c := range m.AllCells() {
					if c.Typ == typ && c.Sess != "" && c.Sess+"."+c.Key == p.K {
						if v, _ := m.Lookup(c.Typ, c.Sess, "", c.Key); v == p.V {
							return &kvViol{"dump-empty-session-lists-other-sessions@" + b.Name, fmt.Sprintf("%s: %s lists %q=%q, which is %s (session id, '.', key read as a key of the empty session)", where, desc, p.K, p.V, c)}
						}
					}
				}
			}
			return &kvViol{"dump-lists-foreign-entry@" + b.Name, fmt.Sprintf("%s: %s lists %q=%q which is not a stored entry with that prefix (stored: %v)", where, desc, p.K, p.V, sortedKeys(exp))}
		}
		if seen[p.K] > 1 {
			return &kvViol{"dump-lists-entry-twice@" + b.Name, fmt.Sprintf("%s: %s lists %q more than once", where, desc, p.K)}
		}
		if want != p.V {
			return &kvViol{"dump-wrong-value@" + b.Name, fmt.Sprintf("%s: %s lists %q=%q, stored value is %q", where, desc, p.K, p.V, want)}
		}
	}
	for _, k := range sortedKeys(exp) {
		if seen[k] == 0 {
			// classification: does a non-matching raw entry sit between the first listed entry and the missed one?
			if c10MissBehindForeign(b, typ, sess, prefix, k, exp, names) {
				return &kvViol{"dump-stops-at-nonmatching-entry@" + b.Name, fmt.Sprintf("%s: %s misses %q (listed %d of %d): in the backend's own enumeration order %v an entry outside the listing precedes it after the first match", where, desc, k, len(obs.List), len(exp), names)}
			}
			return &kvViol{"dump-misses-entry@" + b.Name, fmt.Sprintf("%s: %s misses %q (listed %v, stored %v)", where, desc, k, obs.List, sortedKeys(exp))}
		}
	}
	return nil
}

// c10MissBehindForeign: in the raw enumeration order, after the first entry belonging to the expected
// listing and before the missed entry's own name, there is a name that does not belong to the listing.
func c10MissBehindForeign(b kvBackend, typ uint8, sess, prefix, missed string, exp map[string]string, names []string) bool {
	if b.Kind != "fs" || names == nil {
		return false
	}
	own := map[string]bool{}
	for k := range exp {
		own[fsPrimaryName(b, ref.Cell{Typ: typ, Sess: sess, Key: k})] = true
	}
	target := fsPrimaryName(b, ref.Cell{Typ: typ, Sess: sess, Key: missed})
	started, foreign := false, false
	for _, n := range names {
		if n == target {
			return started && foreign
		}
		if own[n] {
			started = true
		} else if started {
			foreign = true
		}
	}
	return false
}

func sortedKeys(m map[string]string) []string {
	ks := make([]string, 0, len(m))
	for k := range m {
		ks = append(ks, k)
	}
	sort.Strings(ks)
	return ks
}

// c10ProbeCells reads the given cells through handle h (context is overwritten) and compares with the reference.
func c10ProbeCells(b kvBackend, h db.Db, m *ref.KV, cells []ref.Cell, where string, steps *int) []kvViol {
	var out []kvViol
	seenSig := map[string]bool{}
	for _, c := range cells {
		kvApply(h, ref.KVOp{Op: "prefix", Typ: c.Typ})
		kvApply(h, ref.KVOp{Op: "session", Sess: ref.Bs(c.Sess)})
		kvApply(h, ref.KVOp{Op: "lang", Lang: c.Lang})
		obs := kvApply(h, ref.KVOp{Op: "get", Key: ref.Bs(c.Key)})
		*steps++
		if v := c10CheckRead(b, m, c, obs, where); v != nil && !seenSig[v.Sig] {
			seenSig[v.Sig] = true
			out = append(out, *v)
		}
	}
	return out
}

// c10Variants: the cell itself, its default-language entry and its reading under the other languages.
func c10Variants(cells map[ref.Cell]bool) []ref.Cell {
	all := map[ref.Cell]bool{}
	for c := range cells {
		all[c] = true
		if ref.Translated(c.Typ) {
			for _, l := range c10Langs {
				d := c
				d.Lang = l
				all[d] = true
			}
		}
	}
	out := make([]ref.Cell, 0, len(all))
	for c := range all {
		out = append(out, c)
	}
	sort.Slice(out, func(i, j int) bool {
		a, b := out[i], out[j]
		if a.Typ != b.Typ {
			return a.Typ < b.Typ
		}
		if a.Sess != b.Sess {
			return a.Sess < b.Sess
		}
		if a.Key != b.Key {
			return a.Key < b.Key
		}
		return a.Lang < b.Lang
	})
	return out
}

// c10Step applies one operation of a sequence to handle h and the reference m and returns the violations seen.
// diverged=true means reference and backend may no longer hold the same content (stop this run).
func c10Step(b kvBackend, st kvStore, h db.Db, m *ref.KV, o ref.KVOp, where string, touched map[ref.Cell]bool, steps *int, readback bool) (viols []kvViol, diverged bool) {
	if o.Op == "dump" && !b.HasDump {
		// the statement quantifies over Dump on the filesystem backend only: on the other backends the
		// operation is not part of the sequence (Postgres' Dump resets the language context, for instance)
		return nil, false
	}
	obs := kvApply(h, o)
	*steps++
	if obs.Clobber != "" {
		return []kvViol{{"caller-key-buffer-modified@" + b.Name, fmt.Sprintf("%s: %s (language %q) wrote into the caller's key buffer: %s", where, o, m.Lang, obs.Clobber)}}, true
	}
	if obs.Panic != "" && o.Op != "get" && o.Op != "dump" {
		return []kvViol{{"panic-" + o.Op + "@" + b.Name, fmt.Sprintf("%s: %s panicked: %s", where, o, obs.Panic)}}, true
	}
	switch o.Op {
	case "prefix", "session", "lang", "lock":
		wasSealed := m.Seal
		m.Apply(o)
		if o.Op == "lock" && wasSealed && readback && st.independent() {
			// "sealing cannot be undone ... changes nothing": content is still what the reference says
			viols = append(viols, c10ReadBack(b, st, m, touched, where+" (content after SetLock on a sealed handle)", steps)...)
		}
	case "put":
		if touched != nil && m.Valid() {
			touched[m.Cur(string(o.Key))] = true
		}
		switch {
		case !m.Valid():
			if obs.Err == nil {
				return []kvViol{{"put-without-datatype-accepted@" + b.Name, fmt.Sprintf("%s: %s with no data type selected reports success", where, o)}}, true
			}
		case m.PutAllowed() && obs.Err != nil:
			return []kvViol{{"put-refused-while-unlocked@" + b.Name, fmt.Sprintf("%s: %s to %s (writable) fails: %v", where, o, m.Cur(string(o.Key)), obs.Err)}}, true
		case !m.PutAllowed() && obs.Err == nil:
			return []kvViol{{"put-accepted-while-locked@" + b.Name, fmt.Sprintf("%s: %s to %s is accepted although %s is locked (sealed=%v)", where, o, m.Cur(string(o.Key)), ref.TypName(m.Pfx), m.Seal)}}, true
		}
		refused := !m.PutAllowed()
		m.Apply(o)
		if refused && readback && st.independent() {
			viols = append(viols, c10ReadBack(b, st, m, touched, where+" (content after the refused Put)", steps)...)
		}
	case "get":
		if !m.Valid() {
			if obs.Panic != "" {
				return []kvViol{{"panic-get@" + b.Name, fmt.Sprintf("%s: Get panicked: %s", where, obs.Panic)}}, false
			}
			if obs.Err == nil {
				viols = append(viols, kvViol{"get-without-datatype-succeeds@" + b.Name, fmt.Sprintf("%s: %s with no data type selected returns %q", where, o, obs.Val)})
			}
			return
		}
		rd := m.Cur(string(o.Key))
		if touched != nil {
			touched[rd] = true
		}
		if v := c10CheckRead(b, m, rd, obs, where+": "+o.String()); v != nil {
			viols = append(viols, *v)
		}
	case "dump":
		var names []string
		if b.HasDump {
			names = st.names()
		}
		if v := c10CheckDump(b, m, m.Pfx, m.Sess, string(o.Key), obs, names, where); v != nil {
			viols = append(viols, *v)
		}
	}
	return
}

// c10ReadBack reads every stored or addressed entry (and its language variants) back through a second handle.
func c10ReadBack(b kvBackend, st kvStore, m *ref.KV, touched map[ref.Cell]bool, where string, steps *int) []kvViol {
	h2, err := st.open()
	if err != nil {
		return []kvViol{{"second-handle-fails@" + b.Name, where + ": " + err.Error()}}
	}
	set := map[ref.Cell]bool{}
	for c := range touched {
		set[c] = true
	}
	for _, c := range m.AllCells() {
		set[c] = true
	}
	return c10ProbeCells(b, h2, m, c10Variants(set), where, steps)
}

// c10Final: after the sequence, probe the lock state and read everything back.
func c10Final(b kvBackend, st kvStore, h db.Db, m *ref.KV, touched map[ref.Cell]bool, where string, steps *int) []kvViol {
	var viols []kvViol
	// lock state: one Put per read-only type of the alphabet; accepted iff the reference says unlocked
	for _, t := range []uint8{ref.TBin, ref.TTemplate, ref.TStaticLoad} {
		for _, o := range []ref.KVOp{{Op: "prefix", Typ: t}, {Op: "put", Key: "zz", Val: "lockprobe"}} {
			vs, div := c10Step(b, st, h, m, o, where+" final lock probe "+ref.TypName(t), touched, steps, false)
			viols = append(viols, vs...)
			if div {
				return viols
			}
		}
	}
	if st.independent() {
		viols = append(viols, c10ReadBack(b, st, m, touched, where+" (read back through a second handle)", steps)...)
	} else {
		set := map[ref.Cell]bool{}
		for c := range touched {
			set[c] = true
		}
		for _, c := range m.AllCells() {
			set[c] = true
		}
		viols = append(viols, c10ProbeCells(b, h, m, c10Variants(set), where+" (read back at the end)", steps)...)
	}
	if len(viols) > 0 {
		return viols
	}
	// cell independence: overwrite every stored entry in turn with a fresh value (through the ordinary
	// operations, so the reference follows) and read everything back - a write to one (type, session,
	// language, key) must not change what any other one reads, e.g. a translation whose value happened
	// to equal its default entry must keep its own value when the default changes.
	for i, cell := range m.AllCells() {
		if cell.Typ&m.Lock != 0 {
			continue
		}
		for _, o := range []ref.KVOp{{Op: "prefix", Typ: cell.Typ}, {Op: "session", Sess: ref.Bs(cell.Sess)}, {Op: "lang", Lang: cell.Lang}, {Op: "put", Key: ref.Bs(cell.Key), Val: ref.Bs(fmt.Sprintf("perturb%d", i))}} {
			vs, div := c10Step(b, st, h, m, o, where+" independence probe", touched, steps, false)
			viols = append(viols, vs...)
			if div || len(vs) > 0 {
				return viols
			}
		}
		set := map[ref.Cell]bool{}
		for _, c := range m.AllCells() {
			set[c] = true
		}
		if vs := c10ProbeCells(b, h, m, c10Variants(set), where+fmt.Sprintf(" (after overwriting %v)", cell), steps); len(vs) > 0 {
			return append(viols, vs...)
		}
	}
	return viols
}

// c10RunSeq executes one operation sequence on one backend (fresh storage) in lockstep with the reference.
// visit is called with the reference after every operation.
func c10RunSeq(b kvBackend, ops []ref.KVOp, final bool, visit func(*ref.KV)) (viols []kvViol, steps int) {
	st := b.New()
	defer st.cleanup()
	h, err := st.open()
	if err != nil {
		return []kvViol{{"open-fails@" + b.Name, err.Error()}}, 0
	}
	m := ref.NewKV()
	touched := map[ref.Cell]bool{}
	seen := map[string]bool{}
	add := func(vs []kvViol) {
		for _, v := range vs {
			if !seen[v.Sig] {
				seen[v.Sig] = true
				viols = append(viols, v)
			}
		}
	}
	for i, o := range ops {
		where := fmt.Sprintf("[%s] after %s, op %d", b.Name, ref.OpsString(ops[:i]), i+1)
		vs, div := c10Step(b, st, h, m, o, where, touched, &steps, true)
		add(vs)
		if div {
			return
		}
		if visit != nil {
			visit(m)
		}
	}
	if final {
		add(c10Final(b, st, h, m, touched, fmt.Sprintf("[%s] after %s", b.Name, ref.OpsString(ops)), &steps))
	}
	return
}

// ---- Part C: listing sweep

func c10DumpKeys(thorough bool) []string {
	first := []string{"a", "c"}
	rest := []string{"a", "A", "0", "_"}
	if thorough {
		first = []string{"a", "c", "Z"}
		rest = []string{"a", "A", "0", "_", "z"}
	}
	ks := []string{}
	for _, f := range first {
		ks = append(ks, f)
		for _, r := range rest {
			ks = append(ks, f+r)
		}
	}
	ks = append(ks, c10Keys...)
	return ks
}

func c10DumpCase(b kvBackend, stored []c10Stored, typ uint8, sessions, prefixes []string, only *c10Witness) (viols []kvViol, wits []c10Witness, steps int) {
	st := b.New()
	defer st.cleanup()
	h, err := st.open()
	if err != nil {
		return []kvViol{{"open-fails@" + b.Name, err.Error()}}, []c10Witness{{}}, 0
	}
	m := ref.NewKV()
	for _, s := range stored {
		for _, o := range []ref.KVOp{{Op: "prefix", Typ: s.Typ}, {Op: "session", Sess: s.Sess}, {Op: "put", Key: s.Key, Val: ref.Bs("v:" + string(s.Sess) + ":" + string(s.Key))}} {
			vs, div := c10Step(b, st, h, m, o, "["+b.Name+"] storing "+c10StoredString(stored), nil, &steps, false)
			if len(vs) > 0 || div {
				for range vs {
					wits = append(wits, c10Witness{Part: "dump", Backend: b.Name, Stored: stored, Typ: typ})
				}
				return vs, wits, steps
			}
		}
	}
	names := st.names()
	seen := map[string]bool{}
	kvApply(h, ref.KVOp{Op: "prefix", Typ: typ})
	m.Pfx = typ
	for _, s := range sessions {
		if only != nil && string(only.Sess) != s {
			continue
		}
		kvApply(h, ref.KVOp{Op: "session", Sess: ref.Bs(s)})
		m.Sess = s
		for _, p := range prefixes {
			if only != nil && string(only.Prefix) != p {
				continue
			}
			obs := kvApply(h, ref.KVOp{Op: "dump", Key: ref.Bs(p)})
			steps++
			where := fmt.Sprintf("[%s] stored %s", b.Name, c10StoredString(stored))
			if v := c10CheckDump(b, m, typ, s, p, obs, names, where); v != nil && !seen[v.Sig] {
				seen[v.Sig] = true
				viols = append(viols, *v)
				wits = append(wits, c10Witness{Part: "dump", Backend: b.Name, Stored: stored, Typ: typ, Sess: ref.Bs(s), Prefix: ref.Bs(p)})
			}
		}
	}
	return
}

func c10StoredString(st []c10Stored) string {
	var s []string
	for _, e := range st {
		s = append(s, fmt.Sprintf("%s/%q/%q", ref.TypName(e.Typ), string(e.Sess), string(e.Key)))
	}
	return "{" + strings.Join(s, ", ") + "}"
}

// ---- replay

func c10Replay(w json.RawMessage) (string, string) {
	var wit c10Witness
	if err := json.Unmarshal(w, &wit); err != nil {
		return "bad-witness", err.Error()
	}
	b, ok := kvBackendByName(wit.Backend)
	if !ok {
		return "bad-witness", "unknown backend " + wit.Backend
	}
	var viols []kvViol
	switch wit.Part {
	case "seq":
		viols, _ = c10RunSeq(b, wit.Ops, true, nil)
	case "dump":
		viols, _, _ = c10DumpCase(b, wit.Stored, wit.Typ, []string{string(wit.Sess)}, []string{string(wit.Prefix)}, &wit)
	default:
		return "bad-witness", "unknown part " + wit.Part
	}
	if len(viols) == 0 {
		return "", ""
	}
	for _, v := range viols {
		if v.Sig == wit.Sig {
			return v.Sig, v.Msg
		}
	}
	return viols[0].Sig, viols[0].Msg
}

// ---- driver

func c10Run(c *mc.Ctx) {
	depth, bdepth := 4, 7
	if c.Thorough() {
		depth, bdepth = 5, 8
	}
	if s := strings.TrimSpace(os.Getenv("VERIF_C10_DEPTH")); s != "" {
		depth, _ = strconv.Atoi(s)
	}
	if s := strings.TrimSpace(os.Getenv("VERIF_C10_BDEPTH")); s != "" {
		bdepth, _ = strconv.Atoi(s)
	}
	alpha := c10Alphabet()
	backends := kvBackends()
	c.Note("partA_depth", fmt.Sprint(depth))
	c.Note("partB_depth", fmt.Sprint(bdepth))
	c.Note("alphabet", fmt.Sprint(len(alpha)))
	var bn []string
	for _, b := range backends {
		bn = append(bn, b.Name)
	}
	c.Note("backends", strings.Join(bn, ","))
	c.Vacuity("alphabet-has-26-letters", len(alpha) == 26)

	visit := func(m *ref.KV) {
		k := m.Key()
		c.Distinct("states", k)
		if len(m.Cells) > 0 {
			c.Distinct("nontrivial", k)
		}
	}
	report := func(b kvBackend, ops []ref.KVOp, viols []kvViol) {
		for _, v := range viols {
			c.Fail(v.Sig, v.Msg, c10Witness{Part: "seq", Backend: b.Name, Sig: v.Sig, Ops: append([]ref.KVOp(nil), ops...)})
		}
	}
	runLeaf := func(seq []ref.KVOp) {
		for bi, b := range backends {
			var vf func(*ref.KV)
			if bi == 0 {
				vf = visit
			}
			viols, steps := c10RunSeq(b, seq, true, vf)
			c.Count("evaluations", 1)
			c.Count("transitions", int64(steps))
			report(b, seq, viols)
		}
		c.Count("sequences", 1)
	}

	parts := os.Getenv("VERIF_C10_PARTS") // debugging aid: restrict to some parts (recorded in the evidence)
	if parts == "" {
		parts = "ABC"
	}
	c.Note("parts", parts)
	if !strings.Contains(parts, "A") {
		depth = 2
	}

	// ---- Part A
	var seq []ref.KVOp
	var rec func(m *ref.KV)
	rec = func(m *ref.KV) {
		if len(seq) == depth {
			runLeaf(seq)
			if c.Item()%97 == 0 {
				c.Sample(map[string]any{"part": "A", "sequence": ref.OpsString(seq)})
			}
			return
		}
		for _, o := range alpha {
			if m.NoEffect(o) {
				continue
			}
			n := m.Clone()
			n.Apply(o)
			seq = append(seq, o)
			rec(n)
			seq = seq[:len(seq)-1]
		}
	}
	m0 := ref.NewKV()
	for _, o0 := range alpha {
		if m0.NoEffect(o0) {
			continue
		}
		m1 := m0.Clone()
		m1.Apply(o0)
		for _, o1 := range alpha {
			if m1.NoEffect(o1) {
				continue
			}
			if !c.Mine() {
				continue
			}
			m2 := m1.Clone()
			m2.Apply(o1)
			seq = []ref.KVOp{o0, o1}
			rec(m2)
			if c.TimeUp() {
				return
			}
		}
	}

	// ---- Part C
	if strings.Contains(parts, "C") {
		c10PartC(c, backends)
		c10PartD(c, backends)
	}
	// ---- Part E: symbols near the 255-byte limit (well-formed keys): the name of the translation, or of a
	// fallback the backend tries first, may not exist as a name on the backend - that is "not there", not an error
	if strings.Contains(parts, "A") && c.Mine() {
		k251, k252 := strings.Repeat("k", 251), strings.Repeat("k", 252)
		for _, seq := range [][]ref.KVOp{
			{{Op: "prefix", Typ: ref.TTemplate}, {Op: "lock", Typ: ref.TTemplate, On: false}, {Op: "put", Key: ref.Bs(k251), Val: "text"}, {Op: "lang", Lang: "nor"}, {Op: "get", Key: ref.Bs(k251)}},
			{{Op: "prefix", Typ: ref.TTemplate}, {Op: "lang", Lang: "nor"}, {Op: "get", Key: ref.Bs(k251)}},
			{{Op: "prefix", Typ: ref.TBin}, {Op: "get", Key: ref.Bs(k252)}},
			// listing of a resource type (stored without a session) on a handle that has a session set
			{{Op: "prefix", Typ: ref.TTemplate}, {Op: "lock", Typ: ref.TTemplate, On: false}, {Op: "put", Key: "greeting", Val: "hello"}, {Op: "session", Sess: "ss"}, {Op: "get", Key: "greeting"}, {Op: "dump", Key: "gre"}},
			{{Op: "prefix", Typ: ref.TUserData}, {Op: "session", Sess: "ss"}, {Op: "put", Key: ref.Bs(k251[:240]), Val: "text"}, {Op: "get", Key: ref.Bs(k251[:240])}},
		} {
			for _, b := range backends {
				if b.Binary {
					continue // base64 names: these keys are beyond what binary-key mode can store at all
				}
				viols, steps := c10RunSeq(b, seq, true, nil)
				c.Count("evaluations", 1)
				c.Count("long_key_sequences", 1)
				c.Count("transitions", int64(steps))
				report(b, seq, viols)
			}
		}
	}
	if c.TimeUp() {
		return
	}

	// ---- Part B
	if strings.Contains(parts, "B") {
		c10PartB(c, alpha, backends, bdepth, runLeaf)
	}
}

// c10PartD: listing with session ids one of which is a suffix of the other, and - in binary-key mode,
// where keys are meant to be arbitrary bytes - keys whose base64 form uses the 62nd/63rd characters.
func c10PartD(c *mc.Ctx, backends []kvBackend) {
	type ent struct{ sess, key string }
	sessions := []string{"ss", "xss", ""}
	for _, bin := range []bool{false, true} {
		keys := []string{"foo", "foob", "bar"}
		prefixes := []string{"", "fo", "foo", "b"}
		if bin {
			keys = []string{"foo", "\x01\x00\x3e", "\x01\x0f\xbe", "\x01\x00"}
			prefixes = []string{"", "fo", "\x01", "\x01\x00"}
		}
		var uni []ent
		for _, s := range sessions {
			for _, k := range keys {
				uni = append(uni, ent{s, k})
			}
		}
		n := len(uni)
		for i := 0; i < n; i++ {
			if !c.Mine() {
				continue
			}
			for j := i; j < n; j++ {
				for k := j; k < n; k++ {
					idx := map[int]bool{i: true, j: true, k: true}
					for _, typ := range []uint8{ref.TState, ref.TUserData} {
						var stored []c10Stored
						for x := 0; x < n; x++ {
							if idx[x] {
								stored = append(stored, c10Stored{Typ: typ, Sess: ref.Bs(uni[x].sess), Key: ref.Bs(uni[x].key)})
							}
						}
						for _, b := range backends {
							if !b.HasDump || b.Binary != bin {
								continue
							}
							viols, wits, steps := c10DumpCase(b, stored, typ, sessions, prefixes, nil)
							c.Count("evaluations", 1)
							c.Count("dump_cases_partD", 1)
							c.Count("transitions", int64(steps))
							for vi, v := range viols {
								w := wits[vi]
								w.Sig = v.Sig
								w.Stored = append([]c10Stored(nil), stored...)
								c.Fail(v.Sig, v.Msg, w)
							}
						}
					}
				}
			}
		}
	}
}

func c10PartC(c *mc.Ctx, backends []kvBackend) {
	keys := c10DumpKeys(c.Thorough())
	type ent struct{ sess, key string }
	var uni []ent
	for _, s := range c10Sessions {
		for _, k := range keys {
			uni = append(uni, ent{s, k})
		}
	}
	pset := map[string]bool{"": true, "fo": true}
	for _, k := range keys {
		for i := 1; i <= len(k) && i <= 2; i++ {
			pset[k[:i]] = true
		}
	}
	var prefixes []string
	for p := range pset {
		prefixes = append(prefixes, p)
	}
	sort.Strings(prefixes)
	c.Note("partC_keys", strings.Join(keys, " "))
	c.Note("partC_prefixes", fmt.Sprint(len(prefixes)))
	c.Note("partC_universe", fmt.Sprint(len(uni)))
	n := len(uni)
	doCase := func(idx []int) {
		stored := make([]c10Stored, len(idx))
		for _, typ := range []uint8{ref.TState, ref.TUserData} {
			for i, j := range idx {
				stored[i] = c10Stored{Typ: typ, Sess: ref.Bs(uni[j].sess), Key: ref.Bs(uni[j].key)}
			}
			for _, b := range backends {
				if !b.HasDump {
					continue
				}
				viols, wits, steps := c10DumpCase(b, stored, typ, c10Sessions, prefixes, nil)
				c.Count("evaluations", 1)
				c.Count("dump_cases", 1)
				c.Count("transitions", int64(steps))
				for i, v := range viols {
					w := wits[i]
					w.Sig = v.Sig
					w.Stored = append([]c10Stored(nil), stored...)
					c.Fail(v.Sig, v.Msg, w)
				}
			}
		}
	}
	// all subsets of size <= 3; work item = (first element, second element or none)
	if c.Mine() {
		for i := 0; i < n; i++ {
			doCase([]int{i})
		}
	}
	for i := 0; i < n; i++ {
		for j := i + 1; j < n; j++ {
			if !c.Mine() {
				continue
			}
			doCase([]int{i, j})
			for k := j + 1; k < n; k++ {
				doCase([]int{i, j, k})
			}
			if c.TimeUp() {
				return
			}
		}
	}
	c.Sample(map[string]any{"part": "C", "stored_universe": fmt.Sprintf("%d (session,key) entries, all subsets of size<=3", n), "prefixes": prefixes})
}
