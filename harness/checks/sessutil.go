package checks

import (
	"encoding/json"
	"fmt"
	"sort"
	"strconv"
	"strings"

	"git.defalsify.org/vise.git/cache"
	"git.defalsify.org/vise.git/engine"

	"verif/app"
	"verif/ref"
)

// implCacheKey renders the implementation's cache in the same canonical form as ref.VM.CacheKey.
func implCacheKey(ca *cache.Cache) string {
	if ca == nil {
		return "nil"
	}
	var sb strings.Builder
	for _, s := range ca.Cache {
		ks := make([]string, 0, len(s))
		for k := range s {
			ks = append(ks, k)
		}
		sort.Strings(ks)
		sb.WriteString("[")
		for _, k := range ks {
			v := s[k]
			if len(v) > 40 {
				v = fmt.Sprintf("%s..(%d bytes)", v[:16], len(v))
			}
			fmt.Fprintf(&sb, "%s=%q/%d,", k, v, ca.Sizes[k])
		}
		sb.WriteString("]")
	}
	return sb.String()
}

func funcCalls(calls []app.Call) []string {
	var l []string
	for _, c := range calls {
		if c.Kind == "call" {
			l = append(l, c.Sym)
		}
	}
	return l
}

func sameStrings(a, b []string) bool {
	if len(a) != len(b) {
		return false
	}
	for i := range a {
		if a[i] != b[i] {
			return false
		}
	}
	return true
}

func userFlags(flags []byte) string {
	var l []int
	for i := 8; i < len(flags)*8; i++ {
		if flags[i/8]&(1<<(uint(i)%8)) != 0 {
			l = append(l, i)
		}
	}
	return fmt.Sprint(l)
}

func flagSet(flags []byte, i int) bool {
	if i/8 >= len(flags) {
		return false
	}
	return flags[i/8]&(1<<(uint(i)%8)) != 0
}

// newSess builds a session in the named mode ("long-lived", "persisted" = mem store).
func newSess(a *app.App, mode string, cfg engine.Config) *app.Session {
	if mode == "long-lived" {
		return app.NewSession(a, cfg, app.LongLived)
	}
	if mode == "kept-state" {
		s := app.NewSession(a, cfg, app.KeptState)
		s.FinishOnError = true
		return s
	}
	if cfg.SessionId == "" {
		cfg.SessionId = "s1"
	}
	s := app.NewSession(a, cfg, app.Persisted)
	s.Open = app.MemStore()
	s.FinishOnError = true
	return s
}

func newRef(a *app.App, mode string, cfg engine.Config) *ref.VM {
	v := ref.NewVM(a, mode != "long-lived")
	v.OutputSize = cfg.OutputSize
	v.CacheSize = cfg.CacheSize
	v.ResetOnEmpty = cfg.ResetOnEmptyInput
	v.First = a.First
	if cfg.Language != "" {
		if c, ok := refLang(cfg.Language); ok {
			v.Lang = c
		}
	}
	return v
}

// qstrs is a list of byte strings that survives JSON: each element is written Go-quoted in ASCII
// (encoding/json would replace bytes that are not UTF-8 by U+FFFD and the replay would not be the
// recorded history).
type qstrs []string

func (q qstrs) MarshalJSON() ([]byte, error) {
	l := make([]string, len(q))
	for i, s := range q {
		l[i] = strconv.QuoteToASCII(s)
	}
	return json.Marshal(l)
}

func (q *qstrs) UnmarshalJSON(b []byte) error {
	var l []string
	if err := json.Unmarshal(b, &l); err != nil {
		return err
	}
	out := make([]string, len(l))
	for i, s := range l {
		u, err := strconv.Unquote(s)
		if err != nil {
			return err
		}
		out[i] = u
	}
	*q = out
	return nil
}

type qstr string

func (q qstr) MarshalJSON() ([]byte, error) { return json.Marshal(strconv.QuoteToASCII(string(q))) }

func (q *qstr) UnmarshalJSON(b []byte) error {
	var s string
	if err := json.Unmarshal(b, &s); err != nil {
		return err
	}
	u, err := strconv.Unquote(s)
	if err != nil {
		return err
	}
	*q = qstr(u)
	return nil
}
