// Package pgfake is an in-process transactional fake of the part of the pgx v5 driver surface that
// go-vise's Postgres backend (db/postgres) uses: postgres.PgInterface (BeginTx, Close), pgx.Tx and
// pgx.Rows, over a shared Server holding a byte-keyed table.
//
// Semantics modelled (read committed, one table):
//   - every transaction has a private write set; statements in it read their own writes first;
//     Commit applies the write set atomically to the Server, Rollback discards it;
//   - a statement that fails inside a transaction puts the transaction in the ABORTED state: every
//     later statement in it fails, Commit of it rolls back and returns pgx.ErrTxCommitRollback;
//   - Exec/Query/Commit/Rollback on a transaction that has ended return pgx.ErrTxClosed (client side,
//     as in pgx; redundant Commit/Rollback after the end are harmless, as documented by pgx);
//   - Rows are materialised at Query time, close themselves when Next returns false, Scan copies
//     into *[]byte destinations; a failed Scan closes the rows (pgx "fatal") without aborting the tx;
//   - several Conn values can share one Server, so a second connection can check visibility.
//
// The SQL text is recognised by its leading keywords only: "INSERT" (upsert, args key,value),
// "SELECT value" (point lookup, arg key), "SELECT key" (range scan key >= arg, ascending byte
// order), "CREATE" (no-op). Anything else is a statement error.
//
// Fault machinery (optional — without a Plan nothing ever fails by injection): every primitive call
// that reaches the "database" (BeginTx, Exec, Query, Rows.Next, Rows.Scan, Commit, Rollback) made
// through a Conn that carries a *Plan is a numbered fault point (1, 2, 3, ... in call order on that
// Plan); call numbers listed in the Plan fail with ErrInjected. Calls rejected on the client side
// (transaction already ended, rows already closed) are not fault points. An injected failure of
//   - BeginTx returns (nil, ErrInjected) and starts nothing;
//   - Exec/Query returns ErrInjected, has no effect and aborts the transaction;
//   - Rows.Next returns false with Err()==ErrInjected, closes the rows and aborts the transaction
//     (a server/connection error while streaming);
//   - Rows.Scan returns ErrInjected and closes the rows (client-side decode error; tx unaffected);
//   - Commit ends the transaction WITHOUT applying its writes and returns ErrInjected;
//   - Rollback ends the transaction (writes discarded) and returns ErrInjected.
//
// The Server always knows which transactions are open (OpenTxs) and every Conn counts statements
// issued on an already ended transaction (UsedAfterEnd), so an oracle can check that every
// transaction begun is ended exactly once and never used after its end. With Server.Trace set it
// additionally keeps a log of every primitive call with the transaction id it concerned.
package pgfake

import (
	"bytes"
	"context"
	"errors"
	"fmt"
	"sort"
	"strings"
	"sync"

	pgx "github.com/jackc/pgx/v5"
	"github.com/jackc/pgx/v5/pgconn"
	"github.com/jackc/pgx/v5/pgtype"

	"git.defalsify.org/vise.git/db"
	"git.defalsify.org/vise.git/db/postgres"
)

var (
	// ErrInjected is returned by a primitive call selected by the fault plan.
	ErrInjected = errors.New("pgfake: injected fault")
	// ErrAborted mirrors SQLSTATE 25P02.
	ErrAborted = errors.New("pgfake: current transaction is aborted, commands ignored until end of transaction block")
	// ErrBusy mirrors pgx "conn busy" (strict mode only).
	ErrBusy = errors.New("pgfake: conn busy (unread rows)")
	// ErrConnClosed is returned by BeginTx after Close.
	ErrConnClosed = errors.New("pgfake: closed pool")
	ErrRowsClosed = errors.New("pgfake: rows closed or not positioned on a row")
)

// Kind is the kind of a primitive call.
type Kind uint8

const (
	KBegin Kind = iota + 1
	KExec
	KQuery
	KNext
	KScan
	KCommit
	KRollback
)

var kindNames = [...]string{"?", "begin", "exec", "query", "next", "scan", "commit", "rollback"}

func (k Kind) String() string {
	if int(k) < len(kindNames) {
		return kindNames[k]
	}
	return "?"
}

// TxState is the state of a transaction.
type TxState uint8

const (
	TxOpen TxState = iota + 1
	TxAborted
	TxCommitted
	TxRolledBack
)

var stateNames = [...]string{"?", "open", "aborted", "committed", "rolledback"}

func (s TxState) String() string {
	if int(s) < len(stateNames) {
		return stateNames[s]
	}
	return "?"
}

// Ended reports whether the state is terminal.
func (s TxState) Ended() bool { return s == TxCommitted || s == TxRolledBack }

// Event is one logged primitive call.
type Event struct {
	Conn     int     `json:"conn"`
	Tx       int     `json:"tx"`             // transaction id, 0 for a BeginTx that failed
	Kind     Kind    `json:"kind"`           //
	Call     int     `json:"call,omitempty"` // fault-point number on the connection's Plan (0: not a fault point / no plan)
	Injected bool    `json:"injected,omitempty"`
	Err      bool    `json:"err,omitempty"`       // the call returned an error (or Next ended with Err()!=nil)
	AfterEnd bool    `json:"after_end,omitempty"` // the call was made on a transaction that had already ended
	Ends     bool    `json:"ends,omitempty"`      // this call ended the transaction
	State    TxState `json:"state,omitempty"`     // state of the transaction after the call
}

func (e Event) String() string {
	s := fmt.Sprintf("c%d.tx%d.%s", e.Conn, e.Tx, e.Kind)
	if e.Call > 0 {
		s += fmt.Sprintf("#%d", e.Call)
	}
	if e.Injected {
		s += "!FAULT"
	} else if e.Err {
		s += "!err"
	}
	if e.AfterEnd {
		s += "(after-end)"
	}
	if e.Ends {
		s += "->" + e.State.String()
	}
	return s
}

// Plan is a fault plan: the set of fault-point numbers (1-based, in call order) that fail.
type Plan struct {
	Fail       map[int]bool
	Calls      int    // fault points passed so far
	Fired      []int  // the call numbers that actually failed, in order
	FiredKinds []Kind // the kind of primitive call of each entry of Fired
}

// NewPlan returns a plan failing exactly the given call numbers.
func NewPlan(calls ...int) *Plan {
	p := &Plan{Fail: map[int]bool{}}
	for _, c := range calls {
		p.Fail[c] = true
	}
	return p
}

// Server is the shared "database".
type Server struct {
	mu       sync.Mutex
	data     map[string][]byte
	nextTx   int
	nextConn int
	open     map[*Tx]struct{} // transactions begun and not ended
	begun    int
	txs      []*Tx // every transaction ever begun (only with Trace)
	// Trace makes the server keep a log of all primitive calls on all connections (Log) and the
	// list of all transactions ever begun (Txs). Off by default: a long-lived server used as a plain
	// storage backend must not grow with the number of operations. Set it before the first use.
	Trace bool
	Log   []Event
	// Strict additionally models pgx's single-stream connection: a statement, Commit or Rollback
	// issued on a transaction while a Rows of it is still open fails with ErrBusy (Commit/Rollback
	// then end the transaction rolled back, as pgx kills the connection). Off by default so that
	// db.Dumper iteration after the backend's deferred Commit keeps working as it does with pgxmock.
	Strict bool
}

// NewServer returns an empty database.
func NewServer() *Server { return &Server{data: map[string][]byte{}, open: map[*Tx]struct{}{}} }

// Committed returns a copy of the committed table.
func (s *Server) Committed() map[string][]byte {
	s.mu.Lock()
	defer s.mu.Unlock()
	m := make(map[string][]byte, len(s.data))
	for k, v := range s.data {
		m[k] = append([]byte(nil), v...)
	}
	return m
}

// Txs returns all transactions ever begun on this server, in begin order (Trace only).
func (s *Server) Txs() []*Tx {
	s.mu.Lock()
	defer s.mu.Unlock()
	return append([]*Tx(nil), s.txs...)
}

// Begun returns the number of transactions ever begun on this server.
func (s *Server) Begun() int {
	s.mu.Lock()
	defer s.mu.Unlock()
	return s.begun
}

// OpenTxs returns the ids (ascending) of the transactions that are begun and not ended, optionally
// only those of one connection (conn>0).
func (s *Server) OpenTxs(conn int) []int {
	s.mu.Lock()
	defer s.mu.Unlock()
	var l []int
	for t := range s.open {
		if conn <= 0 || t.conn.id == conn {
			l = append(l, t.id)
		}
	}
	sort.Ints(l)
	return l
}

// LogLen returns the current length of the log.
func (s *Server) LogLen() int {
	s.mu.Lock()
	defer s.mu.Unlock()
	return len(s.Log)
}

// LogString renders log[from:] compactly.
func (s *Server) LogString(from int) string {
	s.mu.Lock()
	defer s.mu.Unlock()
	var b strings.Builder
	for i := from; i < len(s.Log); i++ {
		if i > from {
			b.WriteByte(' ')
		}
		b.WriteString(s.Log[i].String())
	}
	return b.String()
}

// Connect returns a new connection ("pool") to the server.
func (s *Server) Connect() *Conn {
	s.mu.Lock()
	defer s.mu.Unlock()
	s.nextConn++
	return &Conn{srv: s, id: s.nextConn}
}

// Open returns a go-vise Postgres backend connected to the server through a fresh connection.
func Open(s *Server) db.Db { return OpenConn(s.Connect()) }

// OpenConn returns a go-vise Postgres backend using the given connection.
func OpenConn(c *Conn) db.Db { return postgres.NewPgDb().WithConnection(c) }

// Conn implements postgres.PgInterface.
type Conn struct {
	srv    *Server
	id     int
	plan   *Plan
	closed bool
	// openAtClose is the number of this connection's transactions that were still open when Close was
	// first called (a real pgxpool.Close blocks until they are released).
	openAtClose int
	closes      int
	// statements (Exec/Query) issued on a transaction of this connection after it had ended
	usedAfterEnd int
}

var _ postgres.PgInterface = (*Conn)(nil)

// WithPlan attaches a fault plan (nil: never fails).
func (c *Conn) WithPlan(p *Plan) *Conn { c.plan = p; return c }

// Id returns the connection id used in the log.
func (c *Conn) Id() int { return c.id }

// UsedAfterEnd returns the number of statements (Exec/Query) issued on transactions of this
// connection after they had been committed or rolled back.
func (c *Conn) UsedAfterEnd() int { return c.usedAfterEnd }

// Closed reports whether Close was called, and how many transactions of the connection were open at that moment.
func (c *Conn) Closed() (bool, int) { return c.closed, c.openAtClose }

// point passes one fault point; s.mu must be held.
func (c *Conn) point(k Kind) (call int, injected bool) {
	p := c.plan
	if p == nil {
		return 0, false
	}
	p.Calls++
	if p.Fail[p.Calls] {
		p.Fired = append(p.Fired, p.Calls)
		p.FiredKinds = append(p.FiredKinds, k)
		return p.Calls, true
	}
	return p.Calls, false
}

func (s *Server) log(e Event) {
	if s.Trace {
		s.Log = append(s.Log, e)
	}
}

// BeginTx implements postgres.PgInterface.
func (c *Conn) BeginTx(ctx context.Context, opts pgx.TxOptions) (pgx.Tx, error) {
	s := c.srv
	s.mu.Lock()
	defer s.mu.Unlock()
	if c.closed {
		s.log(Event{Conn: c.id, Kind: KBegin, Err: true})
		return nil, ErrConnClosed
	}
	call, inj := c.point(KBegin)
	if inj {
		s.log(Event{Conn: c.id, Kind: KBegin, Call: call, Injected: true, Err: true})
		return nil, ErrInjected
	}
	s.nextTx++
	t := &Tx{conn: c, id: s.nextTx, state: TxOpen}
	s.begun++
	s.open[t] = struct{}{}
	if s.Trace {
		s.txs = append(s.txs, t)
	}
	s.log(Event{Conn: c.id, Tx: t.id, Kind: KBegin, Call: call, State: TxOpen})
	return t, nil
}

// Close implements postgres.PgInterface.
func (c *Conn) Close() {
	s := c.srv
	s.mu.Lock()
	defer s.mu.Unlock()
	c.closes++
	if c.closed {
		return
	}
	c.closed = true
	for t := range s.open {
		if t.conn == c {
			c.openAtClose++
		}
	}
}

// Tx implements pgx.Tx.
type Tx struct {
	conn     *Conn
	id       int
	state    TxState
	writes   map[string][]byte
	openRows int
	// UsedAfterEnd counts statements (Exec/Query) issued after the transaction had ended;
	// EndCallsAfterEnd counts redundant Commit/Rollback calls after the end.
	usedAfterEnd     int
	endCallsAfterEnd int
}

var _ pgx.Tx = (*Tx)(nil)

func (t *Tx) Id() int                   { return t.id }
func (t *Tx) ConnId() int               { return t.conn.id }
func (t *Tx) State() TxState            { return t.state }
func (t *Tx) UsedAfterEnd() int         { return t.usedAfterEnd }
func (t *Tx) EndCallsAfterEnd() int     { return t.endCallsAfterEnd }
func (t *Tx) String() string            { return fmt.Sprintf("tx%d(%s)", t.id, t.state) }
func (t *Tx) ev(k Kind, call int) Event { return Event{Conn: t.conn.id, Tx: t.id, Kind: k, Call: call} }

func argBytes(a any) ([]byte, bool) {
	switch v := a.(type) {
	case []byte:
		return v, true
	case string:
		return []byte(v), true
	case *[]byte:
		if v == nil {
			return nil, false
		}
		return *v, true
	}
	return nil, false
}

func keywords(sql string) (string, string) {
	f := strings.Fields(sql)
	a, b := "", ""
	if len(f) > 0 {
		a = strings.ToUpper(f[0])
	}
	if len(f) > 1 {
		b = strings.ToLower(strings.TrimRight(f[1], ","))
	}
	return a, b
}

// stmt does the common prologue of a statement; returns a non-nil error if the statement must fail.
func (t *Tx) stmt(k Kind) error {
	s := t.conn.srv
	if t.state.Ended() {
		t.usedAfterEnd++
		t.conn.usedAfterEnd++
		e := t.ev(k, 0)
		e.Err, e.AfterEnd, e.State = true, true, t.state
		s.log(e)
		return pgx.ErrTxClosed
	}
	call, inj := t.conn.point(k)
	e := t.ev(k, call)
	if inj {
		t.state = TxAborted
		e.Injected, e.Err, e.State = true, true, t.state
		s.log(e)
		return ErrInjected
	}
	if s.Strict && t.openRows > 0 {
		e.Err, e.State = true, t.state
		s.log(e)
		return ErrBusy
	}
	if t.state == TxAborted {
		e.Err, e.State = true, t.state
		s.log(e)
		return ErrAborted
	}
	e.State = t.state
	s.log(e)
	return nil
}

// failStmt marks the last logged statement as failed for a semantic reason (bad SQL/arguments) and aborts the tx.
func (t *Tx) failStmt(format string, a ...any) error {
	s := t.conn.srv
	t.state = TxAborted
	if n := len(s.Log); n > 0 && s.Trace {
		s.Log[n-1].Err = true
		s.Log[n-1].State = TxAborted
	}
	return fmt.Errorf("pgfake: "+format, a...)
}

// Exec implements pgx.Tx.
func (t *Tx) Exec(ctx context.Context, sql string, args ...any) (pgconn.CommandTag, error) {
	s := t.conn.srv
	s.mu.Lock()
	defer s.mu.Unlock()
	if err := t.stmt(KExec); err != nil {
		return pgconn.CommandTag{}, err
	}
	kw, _ := keywords(sql)
	switch kw {
	case "CREATE":
		return pgconn.NewCommandTag("CREATE TABLE"), nil
	case "INSERT":
		if len(args) != 2 {
			return pgconn.CommandTag{}, t.failStmt("INSERT expects 2 arguments, got %d", len(args))
		}
		k, ok1 := argBytes(args[0])
		v, ok2 := argBytes(args[1])
		if !ok1 || !ok2 {
			return pgconn.CommandTag{}, t.failStmt("INSERT arguments must be bytea")
		}
		if v == nil {
			// column is NOT NULL; a nil Go slice is encoded as NULL by pgx
			return pgconn.CommandTag{}, t.failStmt("null value in column \"value\" violates not-null constraint")
		}
		if k == nil {
			return pgconn.CommandTag{}, t.failStmt("null value in column \"key\" violates not-null constraint")
		}
		if t.writes == nil {
			t.writes = map[string][]byte{}
		}
		t.writes[string(k)] = append([]byte{}, v...)
		return pgconn.NewCommandTag("INSERT 0 1"), nil
	}
	return pgconn.CommandTag{}, t.failStmt("unsupported statement %q", kw)
}

func (t *Tx) lookup(k []byte) ([]byte, bool) {
	if v, ok := t.writes[string(k)]; ok {
		return v, true
	}
	v, ok := t.conn.srv.data[string(k)]
	return v, ok
}

// Query implements pgx.Tx. On error the returned Rows is a closed Rows carrying the error (as pgx does).
func (t *Tx) Query(ctx context.Context, sql string, args ...any) (pgx.Rows, error) {
	s := t.conn.srv
	s.mu.Lock()
	defer s.mu.Unlock()
	if err := t.stmt(KQuery); err != nil {
		return &Rows{tx: t, closed: true, err: err}, err
	}
	fail := func(err error) (pgx.Rows, error) { return &Rows{tx: t, closed: true, err: err}, err }
	kw, col := keywords(sql)
	if kw != "SELECT" {
		return fail(t.failStmt("unsupported query %q", kw))
	}
	if len(args) != 1 {
		return fail(t.failStmt("SELECT expects 1 argument, got %d", len(args)))
	}
	k, ok := argBytes(args[0])
	if !ok {
		return fail(t.failStmt("SELECT argument must be bytea"))
	}
	r := &Rows{tx: t}
	switch col {
	case "value":
		r.cols = []string{"value"}
		if v, ok := t.lookup(k); ok && k != nil {
			r.rows = append(r.rows, [][]byte{append([]byte{}, v...)})
		}
	case "key":
		r.cols = []string{"key", "value"}
		if k != nil {
			seen := map[string]bool{}
			var keys []string
			for kk := range t.writes {
				if bytes.Compare([]byte(kk), k) >= 0 {
					keys = append(keys, kk)
					seen[kk] = true
				}
			}
			for kk := range s.data {
				if !seen[kk] && bytes.Compare([]byte(kk), k) >= 0 {
					keys = append(keys, kk)
				}
			}
			sort.Strings(keys)
			for _, kk := range keys {
				v, _ := t.lookup([]byte(kk))
				r.rows = append(r.rows, [][]byte{[]byte(kk), append([]byte{}, v...)})
			}
		}
	default:
		return fail(t.failStmt("unsupported select list %q", col))
	}
	t.openRows++
	return r, nil
}

type fakeRow struct {
	rows pgx.Rows
	err  error
}

func (r fakeRow) Scan(dest ...any) error {
	if r.err != nil {
		return r.err
	}
	defer r.rows.Close()
	if !r.rows.Next() {
		if err := r.rows.Err(); err != nil {
			return err
		}
		return pgx.ErrNoRows
	}
	return r.rows.Scan(dest...)
}

// QueryRow implements pgx.Tx.
func (t *Tx) QueryRow(ctx context.Context, sql string, args ...any) pgx.Row {
	rows, err := t.Query(ctx, sql, args...)
	return fakeRow{rows: rows, err: err}
}

func (t *Tx) end(k Kind) error {
	s := t.conn.srv
	s.mu.Lock()
	defer s.mu.Unlock()
	if t.state.Ended() {
		t.endCallsAfterEnd++
		e := t.ev(k, 0)
		e.Err, e.AfterEnd, e.State = true, true, t.state
		s.log(e)
		return pgx.ErrTxClosed
	}
	call, inj := t.conn.point(k)
	e := t.ev(k, call)
	e.Ends = true
	var err error
	switch {
	case inj:
		t.state = TxRolledBack
		e.Injected = true
		err = ErrInjected
	case s.Strict && t.openRows > 0:
		t.state = TxRolledBack
		err = ErrBusy
	case k == KRollback:
		t.state = TxRolledBack
	case t.state == TxAborted:
		t.state = TxRolledBack
		err = pgx.ErrTxCommitRollback
	default:
		for kk, v := range t.writes {
			s.data[kk] = v
		}
		t.state = TxCommitted
	}
	t.writes = nil
	delete(s.open, t)
	e.Err, e.State = err != nil, t.state
	s.log(e)
	return err
}

// Commit implements pgx.Tx.
func (t *Tx) Commit(ctx context.Context) error { return t.end(KCommit) }

// Rollback implements pgx.Tx.
func (t *Tx) Rollback(ctx context.Context) error { return t.end(KRollback) }

func (t *Tx) Begin(ctx context.Context) (pgx.Tx, error) { panic("pgfake: unsupported: Tx.Begin") }
func (t *Tx) CopyFrom(ctx context.Context, tableName pgx.Identifier, columnNames []string, rowSrc pgx.CopyFromSource) (int64, error) {
	panic("pgfake: unsupported: Tx.CopyFrom")
}
func (t *Tx) SendBatch(ctx context.Context, b *pgx.Batch) pgx.BatchResults {
	panic("pgfake: unsupported: Tx.SendBatch")
}
func (t *Tx) LargeObjects() pgx.LargeObjects { panic("pgfake: unsupported: Tx.LargeObjects") }
func (t *Tx) Prepare(ctx context.Context, name, sql string) (*pgconn.StatementDescription, error) {
	panic("pgfake: unsupported: Tx.Prepare")
}
func (t *Tx) Conn() *pgx.Conn { return nil }

// Rows implements pgx.Rows over a result materialised at Query time.
type Rows struct {
	tx     *Tx
	cols   []string
	rows   [][][]byte
	i      int // number of rows consumed by Next; current row is rows[i-1]
	closed bool
	err    error
}

var _ pgx.Rows = (*Rows)(nil)

func (r *Rows) closeLocked() {
	if !r.closed {
		r.closed = true
		if r.tx.openRows > 0 {
			r.tx.openRows--
		}
	}
}

// Close implements pgx.Rows (idempotent).
func (r *Rows) Close() {
	s := r.tx.conn.srv
	s.mu.Lock()
	defer s.mu.Unlock()
	r.closeLocked()
}

func (r *Rows) Err() error { return r.err }

func (r *Rows) CommandTag() pgconn.CommandTag {
	return pgconn.NewCommandTag(fmt.Sprintf("SELECT %d", len(r.rows)))
}

func (r *Rows) FieldDescriptions() []pgconn.FieldDescription {
	fd := make([]pgconn.FieldDescription, len(r.cols))
	for i, c := range r.cols {
		fd[i] = pgconn.FieldDescription{Name: c, DataTypeOID: pgtype.ByteaOID, Format: pgtype.BinaryFormatCode}
	}
	return fd
}

// Next implements pgx.Rows.
func (r *Rows) Next() bool {
	s := r.tx.conn.srv
	s.mu.Lock()
	defer s.mu.Unlock()
	if r.closed {
		return false
	}
	call, inj := r.tx.conn.point(KNext)
	e := r.tx.ev(KNext, call)
	e.AfterEnd = r.tx.state.Ended()
	if inj {
		r.err = ErrInjected
		r.closeLocked()
		if r.tx.state == TxOpen {
			r.tx.state = TxAborted
		}
		e.Injected, e.Err, e.State = true, true, r.tx.state
		s.log(e)
		return false
	}
	e.State = r.tx.state
	s.log(e)
	if r.i < len(r.rows) {
		r.i++
		return true
	}
	r.i = len(r.rows) + 1
	r.closeLocked()
	return false
}

// Scan implements pgx.Rows.
func (r *Rows) Scan(dest ...any) error {
	s := r.tx.conn.srv
	s.mu.Lock()
	defer s.mu.Unlock()
	if r.closed || r.i == 0 || r.i > len(r.rows) {
		if r.err != nil {
			return r.err
		}
		return ErrRowsClosed
	}
	call, inj := r.tx.conn.point(KScan)
	e := r.tx.ev(KScan, call)
	e.AfterEnd = r.tx.state.Ended()
	e.State = r.tx.state
	fatal := func(err error) error {
		r.err = err
		r.closeLocked()
		e.Err = true
		s.log(e)
		return err
	}
	if inj {
		e.Injected = true
		return fatal(ErrInjected)
	}
	row := r.rows[r.i-1]
	if len(dest) != len(row) {
		return fatal(fmt.Errorf("pgfake: number of field descriptions must equal number of destinations, got %d and %d", len(row), len(dest)))
	}
	for i, d := range dest {
		switch p := d.(type) {
		case nil:
		case *[]byte:
			*p = append([]byte{}, row[i]...)
		case *string:
			*p = string(row[i])
		case *any:
			*p = append([]byte{}, row[i]...)
		default:
			return fatal(fmt.Errorf("pgfake: cannot scan bytea into %T", d))
		}
	}
	s.log(e)
	return nil
}

// Values implements pgx.Rows.
func (r *Rows) Values() ([]any, error) {
	if r.closed || r.i == 0 || r.i > len(r.rows) {
		return nil, ErrRowsClosed
	}
	row := r.rows[r.i-1]
	out := make([]any, len(row))
	for i, b := range row {
		out[i] = append([]byte{}, b...)
	}
	return out, nil
}

// RawValues implements pgx.Rows.
func (r *Rows) RawValues() [][]byte {
	if r.closed || r.i == 0 || r.i > len(r.rows) {
		return nil
	}
	return r.rows[r.i-1]
}

func (r *Rows) Conn() *pgx.Conn { return nil }
