package pgfake

import (
	"bytes"
	"context"
	"errors"
	"testing"

	pgx "github.com/jackc/pgx/v5"

	"git.defalsify.org/vise.git/db"
)

const (
	ins = "INSERT INTO public.kv_vise (key, value, updated) VALUES ($1, $2, 'now') ON CONFLICT(key) DO UPDATE SET value = $2, updated = 'now';"
	sel = "SELECT value FROM public.kv_vise WHERE key = $1"
	rng = "SELECT key, value FROM public.kv_vise WHERE key >= $1"
)

func get(t *testing.T, tx pgx.Tx, k string) (string, bool) {
	t.Helper()
	rs, err := tx.Query(context.Background(), sel, []byte(k))
	if err != nil {
		t.Fatal(err)
	}
	defer rs.Close()
	if !rs.Next() {
		return "", false
	}
	var v []byte
	if err := rs.Scan(&v); err != nil {
		t.Fatal(err)
	}
	return string(v), true
}

func TestTxSemantics(t *testing.T) {
	ctx := context.Background()
	s := NewServer()
	c1, c2 := s.Connect(), s.Connect()
	t1, _ := c1.BeginTx(ctx, pgx.TxOptions{})
	t2, _ := c2.BeginTx(ctx, pgx.TxOptions{})
	if _, err := t1.Exec(ctx, ins, []byte("a"), []byte("1")); err != nil {
		t.Fatal(err)
	}
	if v, ok := get(t, t1, "a"); !ok || v != "1" {
		t.Fatal("read-your-writes")
	}
	if _, ok := get(t, t2, "a"); ok {
		t.Fatal("uncommitted write visible to another connection")
	}
	if err := t1.Commit(ctx); err != nil {
		t.Fatal(err)
	}
	if v, ok := get(t, t2, "a"); !ok || v != "1" {
		t.Fatal("committed write invisible")
	}
	if _, err := t1.Exec(ctx, ins, []byte("a"), []byte("2")); !errors.Is(err, pgx.ErrTxClosed) {
		t.Fatalf("use after end: %v", err)
	}
	if err := t1.Rollback(ctx); !errors.Is(err, pgx.ErrTxClosed) {
		t.Fatalf("rollback after end: %v", err)
	}
	if _, err := t2.Exec(ctx, ins, []byte("b"), []byte("2")); err != nil {
		t.Fatal(err)
	}
	if err := t2.Rollback(ctx); err != nil {
		t.Fatal(err)
	}
	if _, ok := s.Committed()["b"]; ok {
		t.Fatal("rolled back write applied")
	}
	if len(s.OpenTxs(0)) != 0 {
		t.Fatal("open txs")
	}
}

func TestAbortedStateAndFaults(t *testing.T) {
	ctx := context.Background()
	s := NewServer()
	p := NewPlan(3) // begin=1 exec=2 exec=3(fails)
	c := s.Connect().WithPlan(p)
	tx, err := c.BeginTx(ctx, pgx.TxOptions{})
	if err != nil {
		t.Fatal(err)
	}
	if _, err := tx.Exec(ctx, ins, []byte("a"), []byte("1")); err != nil {
		t.Fatal(err)
	}
	if _, err := tx.Exec(ctx, ins, []byte("b"), []byte("1")); !errors.Is(err, ErrInjected) {
		t.Fatalf("expected injected fault, got %v", err)
	}
	if _, err := tx.Exec(ctx, ins, []byte("c"), []byte("1")); !errors.Is(err, ErrAborted) {
		t.Fatalf("expected aborted, got %v", err)
	}
	if _, err := tx.Query(ctx, sel, []byte("a")); !errors.Is(err, ErrAborted) {
		t.Fatalf("expected aborted, got %v", err)
	}
	if err := tx.Commit(ctx); !errors.Is(err, pgx.ErrTxCommitRollback) {
		t.Fatalf("commit of aborted tx: %v", err)
	}
	if len(s.Committed()) != 0 {
		t.Fatal("aborted tx applied writes")
	}
	if p.Calls != 6 || len(p.Fired) != 1 {
		t.Fatalf("calls %d fired %v", p.Calls, p.Fired)
	}
	// commit fault discards
	c2 := s.Connect().WithPlan(NewPlan(3))
	tx, _ = c2.BeginTx(ctx, pgx.TxOptions{})
	tx.Exec(ctx, ins, []byte("a"), []byte("1"))
	if err := tx.Commit(ctx); !errors.Is(err, ErrInjected) {
		t.Fatal(err)
	}
	if len(s.Committed()) != 0 || len(s.OpenTxs(0)) != 0 {
		t.Fatal("failed commit must end the tx without applying")
	}
	// begin fault
	c3 := s.Connect().WithPlan(NewPlan(1))
	if tx, err := c3.BeginTx(ctx, pgx.TxOptions{}); err == nil || tx != nil {
		t.Fatal("begin fault")
	}
	// next fault aborts, scan fault does not
	c4 := s.Connect()
	tx, _ = c4.BeginTx(ctx, pgx.TxOptions{})
	tx.Exec(ctx, ins, []byte("a"), []byte("1"))
	tx.Commit(ctx)
	c4.WithPlan(NewPlan(3, 7))
	tx, _ = c4.BeginTx(ctx, pgx.TxOptions{})
	rs, _ := tx.Query(ctx, sel, []byte("a"))
	if rs.Next() || !errors.Is(rs.Err(), ErrInjected) {
		t.Fatal("next fault")
	}
	if _, err := tx.Query(ctx, sel, []byte("a")); !errors.Is(err, ErrAborted) {
		t.Fatalf("next fault must abort the tx: %v", err)
	}
	tx.Rollback(ctx)
	tx, _ = c4.BeginTx(ctx, pgx.TxOptions{}) // 6
	rs, _ = tx.Query(ctx, sel, []byte("a"))  // 7 fails
	if rs.Next() {
		t.Fatal("failed query returned rows")
	}
	tx.Rollback(ctx)
}

func TestStrictBusyAndAutoClose(t *testing.T) {
	ctx := context.Background()
	s := NewServer()
	s.Strict = true
	c := s.Connect()
	tx, _ := c.BeginTx(ctx, pgx.TxOptions{})
	tx.Exec(ctx, ins, []byte("a"), []byte("1"))
	rs, _ := tx.Query(ctx, sel, []byte("a"))
	if _, err := tx.Exec(ctx, ins, []byte("a"), []byte("2")); !errors.Is(err, ErrBusy) {
		t.Fatalf("expected busy: %v", err)
	}
	if !rs.Next() {
		t.Fatal("row")
	}
	var v []byte
	if err := rs.Scan(&v); err != nil || string(v) != "1" {
		t.Fatal("scan")
	}
	if rs.Next() {
		t.Fatal("second row")
	}
	// auto-closed: not busy any more
	if _, err := tx.Exec(ctx, ins, []byte("a"), []byte("2")); err != nil {
		t.Fatal(err)
	}
	if err := tx.Commit(ctx); err != nil {
		t.Fatal(err)
	}
}

func TestBackendOverFake(t *testing.T) {
	ctx := context.Background()
	s := NewServer()
	store := Open(s)
	store.SetPrefix(db.DATATYPE_USERDATA)
	store.SetSession("ss")
	for _, k := range []string{"foo", "foobar", "bar"} {
		if err := store.Put(ctx, []byte(k), []byte("v"+k)); err != nil {
			t.Fatal(err)
		}
	}
	other := Open(s)
	other.SetPrefix(db.DATATYPE_USERDATA)
	other.SetSession("ss")
	v, err := other.Get(ctx, []byte("foobar"))
	if err != nil || !bytes.Equal(v, []byte("vfoobar")) {
		t.Fatalf("get through second handle: %q %v", v, err)
	}
	if _, err := other.Get(ctx, []byte("nope")); !db.IsNotFound(err) {
		t.Fatalf("expected not found: %v", err)
	}
	d, err := other.Dump(ctx, []byte("foo"))
	if err != nil {
		t.Fatal(err)
	}
	var keys []string
	for {
		k, _ := d.Next(ctx)
		if k == nil {
			break
		}
		keys = append(keys, string(k))
	}
	if len(keys) != 2 || keys[0] != "foo" || keys[1] != "foobar" {
		t.Fatalf("dump keys %v", keys)
	}
	if n := len(s.OpenTxs(0)); n != 0 {
		t.Fatalf("%d open transactions", n)
	}
}
