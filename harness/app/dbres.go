package app

import (
	"context"

	"git.defalsify.org/vise.git/db"
	fsdb "git.defalsify.org/vise.git/db/fs"
	memdb "git.defalsify.org/vise.git/db/mem"
	"git.defalsify.org/vise.git/lang"
	"git.defalsify.org/vise.git/resource"
)

// NewDbRes stores the application's code, templates (with translations) and menu labels in a db/mem
// store and serves them through the library's own resource.DbResource, i.e. through the real
// translation -> default lookup of db.ToKey/DbGetTemplate/DbGetMenu. External functions are
// registered as local functions and recorded in env like Res does.
func NewDbRes(a *App, env *Env) resource.Resource {
	store := memdb.NewMemDb()
	store.Connect(context.Background(), "")
	return NewDbResOn(a, env, store, false)
}

// NewDbResFs is NewDbRes over db/fs in dir, with the translations written the way dev/dbconvert writes
// them: under the plain key <symbol>_<language code> with no language selected on the store.
func NewDbResFs(a *App, env *Env, dir string) resource.Resource {
	store := fsdb.NewFsDb()
	if err := store.Connect(context.Background(), dir); err != nil {
		panic(err)
	}
	return NewDbResOn(a, env, store, true)
}

func NewDbResOn(a *App, env *Env, store db.Db, rawTrans bool) resource.Resource {
	ctx := context.Background()
	for _, t := range []uint8{db.DATATYPE_BIN, db.DATATYPE_TEMPLATE, db.DATATYPE_MENU, db.DATATYPE_STATICLOAD} {
		store.SetLock(t, false)
	}
	put := func(typ uint8, l string, key string, val []byte) {
		store.SetPrefix(typ)
		if l == "" {
			store.SetLanguage(nil)
		} else if rawTrans {
			store.SetLanguage(nil)
			key += "_" + l
		} else {
			ln, err := lang.LanguageFromCode(l)
			if err != nil {
				panic(err)
			}
			store.SetLanguage(&ln)
		}
		if err := store.Put(ctx, []byte(key), val); err != nil {
			panic(err)
		}
	}
	for name, n := range a.Nodes {
		b, _ := a.Code(name)
		put(db.DATATYPE_BIN, "", name, append([]byte(nil), b...))
		put(db.DATATYPE_TEMPLATE, "", name, []byte(n.Tpl))
		for l, t := range n.TplLang {
			put(db.DATATYPE_TEMPLATE, l, name, []byte(t))
		}
	}
	for sym, t := range a.Menus {
		put(db.DATATYPE_MENU, "", sym+"_menu", []byte(t))
	}
	for l, m := range a.MenusLang {
		for sym, t := range m {
			put(db.DATATYPE_MENU, l, sym+"_menu", []byte(t))
		}
	}
	for sym, t := range a.Static {
		put(db.DATATYPE_STATICLOAD, "", sym, []byte(t))
	}
	for l, m := range a.StaticLang {
		for sym, t := range m {
			put(db.DATATYPE_STATICLOAD, l, sym, []byte(t))
		}
	}
	store.SetLanguage(nil)
	store.SetLock(0, true)
	rs := resource.NewDbResource(store)
	if len(a.Static) > 0 {
		rs = rs.With(db.DATATYPE_STATICLOAD)
	}
	for sym, f := range a.Funcs {
		sym, f := sym, f
		rs.AddLocalFunc(sym, func(ctx context.Context, nodeSym string, input []byte) (resource.Result, error) {
			l := ctxLang(ctx)
			env.Log = append(env.Log, Call{Kind: "call", Sym: sym, Lang: l, Input: string(input), Sess: ctxSess(ctx)})
			env.Counts[sym]++
			return f(env, nodeSym, input, l)
		})
	}
	return rs
}
