package app

import (
	"bytes"
	"context"
	"fmt"
	"runtime"
	"sort"
	"strings"

	"git.defalsify.org/vise.git/cache"
	"git.defalsify.org/vise.git/db"
	"git.defalsify.org/vise.git/engine"
	"git.defalsify.org/vise.git/persist"
	"git.defalsify.org/vise.git/resource"
	"git.defalsify.org/vise.git/state"
	"git.defalsify.org/vise.git/vm"
)

type Mode int

const (
	LongLived Mode = iota
	Persisted
	// KeptState: a new engine for every request, built WithState/WithMemory around state and cache objects
	// the application keeps in memory itself (no persister) - a server holding its sessions in a map.
	KeptState
	// KeptEngine: ONE engine with a persister for the whole session (the engine.Loop arrangement): every
	// request is Exec + Flush on the same engine; Finish (the save) is left to the end of the session.
	KeptEngine
)

func (m Mode) String() string {
	if m == LongLived {
		return "long-lived"
	}
	if m == KeptState {
		return "kept-state"
	}
	if m == KeptEngine {
		return "long-lived-persister"
	}
	return "persisted"
}

// StepBudget is the per-request instruction budget (a request that executes more is aborted).
const StepBudget = 100000

type budgetExceeded struct{}

// Session serves one session id.
type Session struct {
	App   *App
	Cfg   engine.Config
	Mode  Mode
	Env   *Env
	Res   resource.Resource
	First resource.EntryFunc
	// Open returns a new handle on the session store (persisted mode); called once per request.
	Open func() db.Db
	// FinishOnError selects the engine.Loop client style (Finish is always called) instead of the
	// examples/http style (an error from Exec or Flush ends the request without Finish).
	FinishOnError bool
	// Flush makes the persister flush its state and memory after every successful Save (Persister.WithFlush).
	Flush bool
	// ViaLoop (persisted mode): each request is served by one call of engine.Loop with the input as its
	// initial input and nothing to read (a gateway that calls Loop once per request). Loop does not report
	// continue/stop, and one error stands for Exec and Flush: Resp.Cont is meaningless, Resp.ExecErr holds it.
	ViaLoop bool
	// ReuseBuf: every input is handed to Exec as a slice of ONE process-wide read buffer that is overwritten
	// by the next request (a front end that reads requests into a buffer it reuses)
	ReuseBuf bool
	// RetryFinish: a Finish that fails is called once more (a client that retries the save)
	RetryFinish bool
	// AppUsesStore (persisted mode): the application's functions use the persister's store handle for their own
	// data (Env.Store)
	AppUsesStore bool
	// SharedPe, when set (persisted mode), is used for every request instead of a new persister: one
	// long-lived flushing persister that serves several sessions, re-pointed with WithSession.
	SharedPe *persist.Persister

	en *engine.DefaultEngine
	pe *persist.Persister // KeptEngine: the engine's persister
	// St, Ca: the state and cache objects the engine works on. Long-lived: supplied by the harness;
	// persisted: the persister's objects after the latest request (nil if the engine never got there).
	St *state.State
	Ca *cache.Cache
	// Steps counts VM instructions of the current request (vm.VerifPoint).
	Steps int
	// Hook, when non-nil, is called at every VM instruction (scheduling point).
	Hook func()
}

func NewSession(a *App, cfg engine.Config, mode Mode) *Session {
	env := NewEnv()
	if cfg.Root == "" {
		cfg.Root = a.Root
	}
	if cfg.FlagCount == 0 {
		cfg.FlagCount = a.FlagCount
	}
	s := &Session{App: a, Cfg: cfg, Mode: mode, Env: env, Res: &Res{App: a, Env: env}}
	if a.First {
		s.First = func(ctx context.Context, sym string, input []byte) (resource.Result, error) {
			env.Log = append(env.Log, Call{Kind: "call", Sym: "_first", Input: string(input), Lang: ctxLang(ctx)})
			return resource.Result{}, nil
		}
	}
	return s
}

// Resp is everything the client (and the harness) can observe of one request.
type Resp struct {
	Input     string `json:"input"`
	Out       string `json:"out"`
	Cont      bool   `json:"cont"`
	ExecErr   string `json:"exec_err,omitempty"`
	FlushErr  string `json:"flush_err,omitempty"`
	FinishErr string `json:"finish_err,omitempty"`
	Panic     string `json:"panic,omitempty"`
	PanicVal  any    `json:"-"`
	Stack     string `json:"-"`
	Budget    bool   `json:"budget_exceeded,omitempty"`
	Steps     int    `json:"steps"`
	Calls     []Call `json:"-"`
}

// Client is what the client of the engine can tell apart.
func (r Resp) Client() string {
	return fmt.Sprintf("out=%q cont=%v execerr=%v flusherr=%v", r.Out, r.Cont, r.ExecErr != "", r.FlushErr != "")
}

func errStr(err error) string {
	if err == nil {
		return ""
	}
	s := err.Error()
	if s == "" {
		s = "(error)"
	}
	return s
}

func (s *Session) newEngine() (*engine.DefaultEngine, *persist.Persister) {
	en := engine.NewEngine(s.Cfg, s.Res)
	var pe *persist.Persister
	if s.Mode == Persisted && s.SharedPe != nil {
		pe = s.SharedPe.WithSession(s.Cfg.SessionId)
		en = en.WithPersister(pe)
	} else if s.Mode == Persisted || s.Mode == KeptEngine {
		store := s.Open()
		store.SetSession(s.Cfg.SessionId)
		if s.AppUsesStore {
			s.Env.Store = store
		}
		pe = persist.NewPersister(store)
		if s.Flush {
			pe = pe.WithFlush()
		}
		en = en.WithPersister(pe)
	} else {
		if s.Mode != KeptState || s.St == nil {
			s.St = state.NewState(s.Cfg.FlagCount)
			s.Ca = cache.NewCache()
			if s.Cfg.CacheSize > 0 {
				s.Ca = s.Ca.WithCacheSize(s.Cfg.CacheSize)
			}
		}
		en = en.WithState(s.St).WithMemory(s.Ca)
	}
	if s.First != nil {
		en = en.WithFirst(s.First)
	}
	return en, pe
}

// Request serves one client request: Exec, Flush, Finish in the configured client style.
var readBuf = make([]byte, 1024)

func (s *Session) viaReadBuf(input []byte) []byte {
	if !s.ReuseBuf || len(input) > len(readBuf) {
		return input
	}
	for i := range readBuf {
		readBuf[i] = 0
	}
	return readBuf[:copy(readBuf, input)]
}

func (s *Session) Request(input []byte) (r Resp) {
	r.Input = string(input)
	input = s.viaReadBuf(input)
	mark := s.Env.Mark()
	s.Steps = 0
	vm.VerifPoint = func() {
		s.Steps++
		if s.Steps > StepBudget {
			panic(budgetExceeded{})
		}
		if s.Hook != nil {
			s.Hook()
		}
	}
	defer func() {
		vm.VerifPoint = nil
		r.Steps = s.Steps
		r.Calls = s.Env.Since(mark)
		if p := recover(); p != nil {
			if _, ok := p.(budgetExceeded); ok {
				r.Budget = true
				if s.Mode == LongLived {
					s.en = nil
				}
				return
			}
			buf := make([]byte, 16384)
			buf = buf[:runtime.Stack(buf, false)]
			r.Panic = fmt.Sprint(p)
			r.PanicVal = p
			r.Stack = string(buf)
		}
	}()
	ctx := context.Background()
	var en *engine.DefaultEngine
	var pe *persist.Persister
	if s.Mode == LongLived || s.Mode == KeptEngine {
		if s.en == nil {
			s.en, s.pe = s.newEngine()
		}
		en = s.en
		if s.pe != nil {
			defer func() {
				s.St = s.pe.GetState()
				s.Ca = s.pe.Memory
			}()
		}
	} else {
		en, pe = s.newEngine()
		defer func() {
			if pe != nil {
				s.St = pe.GetState()
				s.Ca = pe.Memory
			}
		}()
	}
	if s.ViaLoop && s.Mode == Persisted {
		var w bytes.Buffer
		err := engine.Loop(ctx, en, strings.NewReader(""), &w, input)
		r.ExecErr = errStr(err)
		r.Out = w.String()
		if strings.HasSuffix(r.Out, "\n") {
			r.Out = r.Out[:len(r.Out)-1]
		}
		r.FinishErr = ""
		return
	}
	cont, err := en.Exec(ctx, input)
	r.Cont = cont
	r.ExecErr = errStr(err)
	r.FinishErr = "-" // "-" = Finish was not called
	if s.Mode == KeptEngine {
		if err == nil {
			var w bytes.Buffer
			_, err = en.Flush(ctx, &w)
			r.Out = w.String()
			r.FlushErr = errStr(err)
		}
		return
	}
	if err != nil {
		if s.FinishOnError {
			r.FinishErr = errStr(en.Finish(ctx))
		}
		return
	}
	var w bytes.Buffer
	_, err = en.Flush(ctx, &w)
	r.Out = w.String()
	r.FlushErr = errStr(err)
	if err != nil && !s.FinishOnError {
		return
	}
	r.FinishErr = errStr(en.Finish(ctx))
	if r.FinishErr != "" && s.RetryFinish {
		r.FinishErr = errStr(en.Finish(ctx))
	}
	return
}

// Attempt sends one input that the caller expects to be refused, then behaves like a client of the
// given style: 0 = nothing more, 1 = Flush, 2 = Flush and Finish. FlushErr/FinishErr report what those
// calls returned ("-" = not called).
func (s *Session) Attempt(input []byte, style int) (r Resp) {
	r.Input = string(input)
	input = s.viaReadBuf(input)
	mark := s.Env.Mark()
	s.Steps = 0
	vm.VerifPoint = func() { s.Steps++ }
	defer func() {
		vm.VerifPoint = nil
		r.Steps = s.Steps
		r.Calls = s.Env.Since(mark)
		if p := recover(); p != nil {
			r.Panic = fmt.Sprint(p)
		}
	}()
	ctx := context.Background()
	var en *engine.DefaultEngine
	var pe *persist.Persister
	if s.Mode == LongLived || s.Mode == KeptEngine {
		if s.en == nil {
			s.en, s.pe = s.newEngine()
		}
		en = s.en
		if s.pe != nil {
			defer func() {
				if s.pe.GetState() != nil {
					s.St = s.pe.GetState()
					s.Ca = s.pe.Memory
				}
			}()
		}
		if s.Mode == KeptEngine && style >= 2 {
			style = 1 // the save is left to the end of the session
		}
	} else {
		en, pe = s.newEngine()
		defer func() {
			if pe != nil && pe.GetState() != nil {
				s.St = pe.GetState()
				s.Ca = pe.Memory
			}
		}()
	}
	cont, err := en.Exec(ctx, input)
	r.Cont = cont
	r.ExecErr = errStr(err)
	r.FlushErr, r.FinishErr = "-", "-"
	if style >= 1 {
		var w bytes.Buffer
		_, err = en.Flush(ctx, &w)
		r.Out = w.String()
		r.FlushErr = errStr(err)
	}
	if style >= 2 {
		r.FinishErr = errStr(en.Finish(ctx))
	}
	return
}

// FlushOnly calls Flush on the long-lived engine without Exec (C17).
func (s *Session) FlushOnly() (string, error) {
	if s.en == nil {
		s.en, _ = s.newEngine()
	}
	var w bytes.Buffer
	_, err := s.en.Flush(context.Background(), &w)
	return w.String(), err
}

// ClearTerminate is client code that unblocks the stored session: it loads the record, resets TERMINATE
// and saves it back (persisted mode).
func (s *Session) ClearTerminate() error {
	store := s.Open()
	store.SetSession(s.Cfg.SessionId)
	pe := persist.NewPersister(store).WithContent(state.NewState(s.Cfg.FlagCount), cache.NewCache())
	if err := pe.Load(s.Cfg.SessionId); err != nil {
		return err
	}
	pe.State.ResetFlag(state.FLAG_TERMINATE)
	return pe.Save(s.Cfg.SessionId)
}

// Snapshot reads and decodes the stored session record through a fresh store handle.
func (s *Session) Snapshot() (*state.State, *cache.Cache, []byte, error) {
	store := s.Open()
	store.SetSession(s.Cfg.SessionId)
	store.SetPrefix(db.DATATYPE_STATE)
	raw, err := store.Get(context.Background(), []byte(s.Cfg.SessionId))
	if err != nil {
		return nil, nil, nil, err
	}
	pe := persist.NewPersister(store)
	if err := pe.Deserialize(raw); err != nil {
		return nil, nil, raw, err
	}
	return pe.State, pe.Memory, raw, nil
}

// StateKey renders (state, cache) canonically: maps sorted, Moves dropped (no library code reads it).
func StateKey(st *state.State, ca *cache.Cache) string {
	var sb strings.Builder
	if st == nil {
		sb.WriteString("st=nil")
	} else {
		l := ""
		if st.Language != nil {
			l = st.Language.Code
		}
		fmt.Fprintf(&sb, "path=%s idx=%d flags=%x bits=%d lang=%s code=%x", strings.Join(st.ExecPath, "/"), st.SizeIdx, st.Flags, st.BitSize, l, st.Code)
	}
	sb.WriteString(" | ")
	sb.WriteString(CacheKey(ca))
	return sb.String()
}

func CacheKey(ca *cache.Cache) string {
	if ca == nil {
		return "ca=nil"
	}
	var sb strings.Builder
	fmt.Fprintf(&sb, "cap=%d use=%d last=%q", ca.CacheSize, ca.CacheUseSize, short(ca.LastValue))
	for _, m := range ca.Cache {
		ks := make([]string, 0, len(m))
		for k := range m {
			ks = append(ks, k)
		}
		sort.Strings(ks)
		sb.WriteString(" [")
		for _, k := range ks {
			fmt.Fprintf(&sb, "%s=%q,", k, short(m[k]))
		}
		sb.WriteString("]")
	}
	ks := make([]string, 0, len(ca.Sizes))
	for k := range ca.Sizes {
		ks = append(ks, k)
	}
	sort.Strings(ks)
	sb.WriteString(" sizes{")
	for _, k := range ks {
		fmt.Fprintf(&sb, "%s:%d,", k, ca.Sizes[k])
	}
	sb.WriteString("}")
	return sb.String()
}

func short(s string) string {
	if len(s) > 40 {
		return fmt.Sprintf("%s..(%d bytes)", s[:16], len(s))
	}
	return s
}
