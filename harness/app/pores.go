package app

import (
	"context"
	"fmt"
	"os"
	"path/filepath"
	"strings"

	"git.defalsify.org/vise.git/lang"
	"git.defalsify.org/vise.git/resource"
)

func poEsc(s string) string {
	s = strings.ReplaceAll(s, `\`, `\\`)
	s = strings.ReplaceAll(s, `"`, `\"`)
	return strings.ReplaceAll(s, "\n", `\n`)
}

func writePo(path string, entries map[string]string) {
	var sb strings.Builder
	sb.WriteString("msgid \"\"\nmsgstr \"\"\n\"Content-Type: text/plain; charset=UTF-8\\n\"\n\n")
	for id, str := range entries {
		if id == "" {
			continue
		}
		fmt.Fprintf(&sb, "msgid \"%s\"\nmsgstr \"%s\"\n\n", poEsc(id), poEsc(str))
	}
	os.MkdirAll(filepath.Dir(path), 0o755)
	if err := os.WriteFile(path, []byte(sb.String()), 0o644); err != nil {
		panic(err)
	}
}

// NewPoRes writes the application's templates and menu labels as gettext catalogues under dir and
// serves them through the library's resource.PoResource (resource/gettext.go): symbol -> default text
// through the key domains of the default language, default text -> translation through the "default"
// domain of the session's language. Code and external functions go through the embedded MenuResource.
func NewPoRes(a *App, env *Env, dir string) resource.Resource {
	def, _ := lang.LanguageFromCode("deu") // the catalogue language of the untranslated texts: none of the languages the applications switch to
	tpl, menu := map[string]string{}, map[string]string{}
	trans := map[string]map[string]string{}
	for name, n := range a.Nodes {
		tpl[name] = n.Tpl
		for l, t := range n.TplLang {
			if trans[l] == nil {
				trans[l] = map[string]string{}
			}
			trans[l][n.Tpl] = t
		}
	}
	for sym, t := range a.Menus {
		menu[sym] = t
	}
	for l, m := range a.MenusLang {
		for sym, t := range m {
			d := sym
			if dt, ok := a.Menus[sym]; ok {
				d = dt
			}
			if trans[l] == nil {
				trans[l] = map[string]string{}
			}
			trans[l][d] = t
		}
	}
	writePo(filepath.Join(dir, def.Code, resource.TemplateKeyPoDomain+".po"), tpl)
	writePo(filepath.Join(dir, def.Code, resource.MenuKeyPoDomain+".po"), menu)
	writePo(filepath.Join(dir, def.Code, resource.PoDomain+".po"), map[string]string{})
	rs := resource.NewPoResource(def, dir)
	for l, m := range trans {
		writePo(filepath.Join(dir, l, resource.PoDomain+".po"), m)
		ln, err := lang.LanguageFromCode(l)
		if err != nil {
			panic(err)
		}
		rs = rs.WithLanguage(ln)
	}
	rs.WithCodeGetter(func(ctx context.Context, sym string) ([]byte, error) {
		b, ok := a.Code(sym)
		if !ok {
			return nil, fmt.Errorf("no code for %s", sym)
		}
		return append([]byte(nil), b...), nil
	})
	reg := func(sym string, f Func) {
		rs.AddLocalFunc(sym, func(ctx context.Context, nodeSym string, input []byte) (resource.Result, error) {
			l := ctxLang(ctx)
			env.Log = append(env.Log, Call{Kind: "call", Sym: sym, Lang: l, Input: string(input), Sess: ctxSess(ctx)})
			env.Counts[sym]++
			return f(env, nodeSym, input, l)
		})
	}
	for sym, f := range a.Funcs {
		reg(sym, f)
	}
	for sym := range a.Static {
		if _, ok := a.Funcs[sym]; !ok {
			reg(sym, a.StaticFunc(sym))
		}
	}
	return rs
}
