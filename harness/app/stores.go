package app

import (
	"context"

	"git.defalsify.org/vise.git/db"
	fsdb "git.defalsify.org/vise.git/db/fs"
	memdb "git.defalsify.org/vise.git/db/mem"
)

// MemStore returns an Open function handing out the same connected in-memory db (its content lives
// in the handle, so "a new handle on the same storage" is the handle itself with its context reset).
func MemStore() func() db.Db {
	m := memdb.NewMemDb()
	m.Connect(context.Background(), "")
	return func() db.Db {
		m.SetSession("")
		m.SetLanguage(nil)
		m.SetPrefix(0)
		return m
	}
}

// FsStore returns an Open function creating a fresh fs handle on dir per call.
func FsStore(dir string, binary bool) func() db.Db {
	return func() db.Db {
		f := fsdb.NewFsDb()
		if binary {
			f = f.WithBinary()
		}
		if err := f.Connect(context.Background(), dir); err != nil {
			panic(err)
		}
		return f
	}
}
