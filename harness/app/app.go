// Package app is the application DSL of the harness: nodes (bytecode built with the harness's own
// encoder, templates, translations), external functions driven by an environment model, a recording
// resource.Resource, and a session driver that serves input histories through engine.DefaultEngine
// in long-lived or persisted (fresh engine + store handle per request) operation.
package app

import (
	"context"
	"fmt"
	"git.defalsify.org/vise.git/db"
	"sort"
	"strings"

	"git.defalsify.org/vise.git/lang"
	"git.defalsify.org/vise.git/resource"

	"verif/codec"
)

type Node struct {
	Code []codec.Ins
	Tpl  string
	// TplLang holds translated templates by ISO-639-3 code.
	TplLang map[string]string
}

// Func is an external function. It may consult and update the environment.
type Func func(e *Env, sym string, input []byte, lang string) (resource.Result, error)

type App struct {
	Name      string
	Root      string
	Nodes     map[string]*Node
	Menus     map[string]string            // label symbol -> text; a missing entry resolves to the symbol itself
	MenusLang map[string]map[string]string // lang -> label symbol -> text
	Funcs     map[string]Func
	// Static symbols: LOAD symbols whose content is stored data (db.DATATYPE_STATICLOAD) with optional
	// translations, not code. The in-memory resource serves them as functions of the language.
	Static map[string]string
	// First: the engine gets a first function (engine.WithFirst) that answers with empty content and no flags.
	First      bool
	StaticLang map[string]map[string]string // lang -> symbol -> content
	FlagCount  uint32
	Inputs     []string // the application's selector alphabet
	// SharedCode makes GetCode hand out the same backing slice on every call (as an in-memory
	// resource naturally would) instead of a fresh exact-capacity copy; used by C19 only.
	SharedCode bool
	// CodeSlack gives every code slice spare capacity behind its length (a slice built by appends
	// naturally has some); the spare bytes are filled with 0xEE so that a write into them is visible.
	CodeSlack int
	encoded   map[string][]byte
}

func New(name string) *App {
	return &App{Name: name, Root: "root", Nodes: map[string]*Node{}, Menus: map[string]string{}, MenusLang: map[string]map[string]string{}, Funcs: map[string]Func{}}
}

func (a *App) Node(name, tpl string, code ...codec.Ins) *App {
	a.Nodes[name] = &Node{Code: code, Tpl: tpl}
	a.encoded = nil
	return a
}

func (a *App) Func(name string, f Func) *App {
	a.Funcs[name] = f
	return a
}

func (a *App) WithInputs(in ...string) *App {
	a.Inputs = in
	return a
}

func (a *App) NodeNames() []string {
	var r []string
	for k := range a.Nodes {
		r = append(r, k)
	}
	sort.Strings(r)
	return r
}

// Code returns the encoded bytecode of a node (cached; exact capacity).
func (a *App) Code(name string) ([]byte, bool) {
	if a.encoded == nil {
		a.encoded = map[string][]byte{}
		for k, n := range a.Nodes {
			e := codec.Encode(n.Code)
			if a.CodeSlack > 0 {
				b := make([]byte, len(e)+a.CodeSlack)
				copy(b, e)
				for i := len(e); i < len(b); i++ {
					b[i] = 0xEE
				}
				e = b[:len(e)]
			}
			a.encoded[k] = e
		}
	}
	b, ok := a.encoded[name]
	return b, ok
}

// Describe renders the application as text for samples and replay files.
func (a *App) Describe() string {
	var sb strings.Builder
	for _, n := range a.NodeNames() {
		fmt.Fprintf(&sb, "[%s] tpl=%q\n", n, a.Nodes[n].Tpl)
		for _, i := range a.Nodes[n].Code {
			sb.WriteString("  " + i.String() + "\n")
		}
	}
	return sb.String()
}

// Call is one recorded interaction between the library and the application.
type Call struct {
	Kind  string `json:"kind"` // code | tpl | menu | funcfor | call
	Sym   string `json:"sym"`
	Lang  string `json:"lang,omitempty"`
	Input string `json:"input,omitempty"`
	Sess  string `json:"sess,omitempty"`
}

func (c Call) String() string {
	s := c.Kind + ":" + c.Sym
	if c.Lang != "" {
		s += "@" + c.Lang
	}
	if c.Kind == "call" {
		s += fmt.Sprintf("(%q)", c.Input)
	}
	return s
}

// Env is the environment model behind the external functions of one session. It survives engine
// re-creation (it plays the part of the world outside the library).
type Env struct {
	Log    []Call
	Counts map[string]int    // calls per function symbol
	Vars   map[string]string // free-form function state
	// Answer, when non-nil, picks among n alternative answers at a labelled choice point.
	Answer func(label string, n int) int
	// Yield, when non-nil, is called at every resource callback (scheduling point for C19).
	Yield func(what string)
	// Store, when non-nil, is the store handle of the current request's persister, which the application's functions
	// use for their own data as well (the examples/db arrangement): every function call writes and reads a
	// user-data entry through it, selecting the data type itself.
	Store db.Db
}

func NewEnv() *Env {
	return &Env{Counts: map[string]int{}, Vars: map[string]string{}}
}

func (e *Env) Pick(label string, n int) int {
	if e.Answer == nil {
		return 0
	}
	return e.Answer(label, n)
}

// Mark returns the current length of the call log.
func (e *Env) Mark() int { return len(e.Log) }

// Since returns the calls recorded after mark.
func (e *Env) Since(mark int) []Call { return append([]Call(nil), e.Log[mark:]...) }

// StateKey is a canonical rendering of the environment's own state.
func (e *Env) StateKey() string {
	var ks []string
	for k, v := range e.Counts {
		if v > 4 {
			v = 4 // the corpus' functions saturate their counters at 3
		}
		ks = append(ks, fmt.Sprintf("c:%s=%d", k, v))
	}
	for k, v := range e.Vars {
		ks = append(ks, fmt.Sprintf("v:%s=%s", k, v))
	}
	sort.Strings(ks)
	return strings.Join(ks, ",")
}

// Res is the recording resource.
type Res struct {
	App *App
	Env *Env
}

// ctxLang reads the language the way an application does: through the library's own helper
// (lang.LanguageFromContext asserts the type without checking - a context that carries anything but
// a lang.Language value panics there, as it would in application code).
func ctxLang(ctx context.Context) string {
	if l, ok := lang.LanguageFromContext(ctx); ok {
		return l.Code
	}
	return ""
}

func ctxSess(ctx context.Context) string {
	if s, ok := ctx.Value("SessionId").(string); ok {
		return s
	}
	return ""
}

func (r *Res) yield(what string) {
	if r.Env.Yield != nil {
		r.Env.Yield(what)
	}
}

func (r *Res) GetTemplate(ctx context.Context, sym string) (string, error) {
	r.yield("tpl")
	l := ctxLang(ctx)
	r.Env.Log = append(r.Env.Log, Call{Kind: "tpl", Sym: sym, Lang: l})
	n, ok := r.App.Nodes[sym]
	if !ok {
		return "", fmt.Errorf("no template for %s", sym)
	}
	if l != "" {
		if t, ok := n.TplLang[l]; ok {
			return t, nil
		}
	}
	return n.Tpl, nil
}

func (r *Res) GetCode(ctx context.Context, sym string) ([]byte, error) {
	r.yield("code")
	r.Env.Log = append(r.Env.Log, Call{Kind: "code", Sym: sym})
	b, ok := r.App.Code(sym)
	if !ok {
		return nil, fmt.Errorf("no code for %s", sym)
	}
	if r.App.SharedCode {
		return b, nil
	}
	c := make([]byte, len(b))
	copy(c, b)
	return c, nil
}

func (r *Res) GetMenu(ctx context.Context, sym string) (string, error) {
	r.yield("menu")
	l := ctxLang(ctx)
	r.Env.Log = append(r.Env.Log, Call{Kind: "menu", Sym: sym, Lang: l})
	if l != "" {
		if m, ok := r.App.MenusLang[l]; ok {
			if t, ok := m[sym]; ok {
				return t, nil
			}
		}
	}
	if t, ok := r.App.Menus[sym]; ok {
		return t, nil
	}
	return sym, nil
}

func (r *Res) FuncFor(ctx context.Context, sym string) (resource.EntryFunc, error) {
	r.yield("funcfor")
	r.Env.Log = append(r.Env.Log, Call{Kind: "funcfor", Sym: sym, Lang: ctxLang(ctx)})
	f, ok := r.App.Funcs[sym]
	if !ok {
		if _, st := r.App.Static[sym]; st {
			f, ok = r.App.StaticFunc(sym), true
		}
	}
	if !ok {
		return nil, fmt.Errorf("no function for %s", sym)
	}
	return func(ctx context.Context, nodeSym string, input []byte) (resource.Result, error) {
		r.yield("call")
		l := ctxLang(ctx)
		r.Env.Log = append(r.Env.Log, Call{Kind: "call", Sym: sym, Lang: l, Input: string(input), Sess: ctxSess(ctx)})
		r.Env.Counts[sym]++
		if st := r.Env.Store; st != nil {
			st.SetPrefix(db.DATATYPE_USERDATA)
			if err := st.Put(ctx, []byte("calls"), []byte(fmt.Sprint(len(r.Env.Log)))); err != nil {
				return resource.Result{}, fmt.Errorf("application data: %v", err)
			}
			if _, err := st.Get(ctx, []byte("calls")); err != nil {
				return resource.Result{}, fmt.Errorf("application data: %v", err)
			}
		}
		return f(r.Env, nodeSym, input, l)
	}, nil
}

func (r *Res) Close(ctx context.Context) error { return nil }

// StaticFunc is the function view of a static symbol: its translation in the current language if one
// is stored, else its default content.
func (a *App) StaticFunc(sym string) Func {
	return func(e *Env, s string, in []byte, l string) (resource.Result, error) {
		if l != "" {
			if m, ok := a.StaticLang[l]; ok {
				if t, ok := m[sym]; ok {
					return resource.Result{Content: t}, nil
				}
			}
		}
		return resource.Result{Content: a.Static[sym]}, nil
	}
}

// NewMenuRes serves the application through the library's own resource.MenuResource: code, templates
// and menu labels through getters, external functions registered with AddLocalFunc as closures bound to
// this session's environment (the way an application binds per-session data to its functions).
func NewMenuRes(r *Res) *resource.MenuResource {
	rs := resource.NewMenuResource()
	rs = rs.WithCodeGetter(r.GetCode).WithTemplateGetter(r.GetTemplate).WithMenuGetter(r.GetMenu)
	reg := func(sym string, f Func) {
		rs.AddLocalFunc(sym, func(ctx context.Context, nodeSym string, input []byte) (resource.Result, error) {
			r.yield("call")
			l := ctxLang(ctx)
			r.Env.Log = append(r.Env.Log, Call{Kind: "call", Sym: sym, Lang: l, Input: string(input), Sess: ctxSess(ctx)})
			r.Env.Counts[sym]++
			return f(r.Env, nodeSym, input, l)
		})
	}
	for sym, f := range r.App.Funcs {
		reg(sym, f)
	}
	for sym := range r.App.Static {
		if _, ok := r.App.Funcs[sym]; !ok {
			reg(sym, r.App.StaticFunc(sym))
		}
	}
	return rs
}
