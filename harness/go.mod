module verif

go 1.22.0

require git.defalsify.org/vise.git v0.0.0

replace git.defalsify.org/vise.git => /repo
