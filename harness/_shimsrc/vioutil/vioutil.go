// Package vioutil stands in for io/ioutil inside db/fs under the crash-point overlay.
package vioutil

import (
	"io"

	os "git.defalsify.org/vise.git/verifshim/vos"
)

func ReadAll(r io.Reader) ([]byte, error) { return io.ReadAll(r) }

func ReadFile(name string) ([]byte, error) { return os.ReadFile(name) }

func WriteFile(name string, data []byte, perm os.FileMode) error {
	return os.WriteFile(name, data, perm)
}

func ReadDir(name string) ([]os.FileInfo, error) {
	es, err := os.ReadDir(name)
	if err != nil {
		return nil, err
	}
	var out []os.FileInfo
	for _, e := range es {
		fi, err := e.Info()
		if err != nil {
			return nil, err
		}
		out = append(out, fi)
	}
	return out, nil
}

func TempFile(dir, pattern string) (*os.File, error) { return os.CreateTemp(dir, pattern) }

var Discard = io.Discard

func NopCloser(r io.Reader) io.ReadCloser { return io.NopCloser(r) }
