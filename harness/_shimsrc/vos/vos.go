// Package vos is a drop-in stand-in for the parts of package os that a storage backend uses. It is
// injected into db/fs by a build overlay (the repository is not touched). It forwards to the real os,
// numbers every MUTATING file-system operation, logs it, and at an armed operation number simulates
// process death by panicking with Crash{}: before the operation, after it, or - for a write of n
// bytes - after a prefix of the bytes has reached the file.
package vos

import (
	"errors"
	"io/fs"
	"os"
)

type (
	DirEntry  = os.DirEntry
	FileInfo  = os.FileInfo
	FileMode  = os.FileMode
	PathError = os.PathError
)

const (
	O_RDONLY = os.O_RDONLY
	O_WRONLY = os.O_WRONLY
	O_RDWR   = os.O_RDWR
	O_APPEND = os.O_APPEND
	O_CREATE = os.O_CREATE
	O_EXCL   = os.O_EXCL
	O_SYNC   = os.O_SYNC
	O_TRUNC  = os.O_TRUNC

	ModePerm = os.ModePerm
)

var (
	ErrNotExist   = os.ErrNotExist
	ErrExist      = os.ErrExist
	ErrPermission = os.ErrPermission
	Stderr        = os.Stderr
	Stdout        = os.Stdout
)

// Crash is the sentinel the simulated process death panics with.
type Crash struct{ At Point }

// Point identifies one crash point.
type Point struct {
	Op     int    `json:"op"`     // index of the mutating operation
	When   string `json:"when"`   // before | after | partial (process death); fail | fail-partial (I/O error, the process lives on)
	Prefix int    `json:"prefix"` // bytes written before death / before the error (partial, fail-partial)
}

// ErrInjected is what an operation returns at an armed "fail" / "fail-partial" point (disk full, quota,
// I/O error): "fail" does nothing, "fail-partial" writes the prefix first (a short write).
var ErrInjected = errors.New("injected I/O error: no space left on device")

// Fired reports whether an armed fail point was reached since the last Reset.
var Fired bool

// OpRec is one logged mutating operation.
type OpRec struct {
	Kind string `json:"kind"`
	Name string `json:"name"`
	N    int    `json:"n,omitempty"` // bytes for writes
}

var (
	Log    []OpRec
	armed  *Point
	count  int
	Active bool // when false nothing is counted or logged
)

// Reset clears the log and disarms.
func Reset() { Log, armed, count, Fired = nil, nil, 0, false }

// Arm makes the given point fatal.
func Arm(p Point) { armed = &p }

// Yield, when non-nil, is called before every mutating operation (a scheduling point for C19: the
// steps of one save - create, write, close, rename - can interleave with another session's).
var Yield func()

// op runs one mutating operation under the fault plan.
func op(kind, name string, n int, do func(prefix int) error) error {
	if Yield != nil {
		Yield()
	}
	if !Active {
		return do(-1)
	}
	i := count
	count++
	Log = append(Log, OpRec{Kind: kind, Name: name, N: n})
	if armed != nil && armed.Op == i {
		switch armed.When {
		case "fail":
			Fired = true
			return ErrInjected
		case "fail-partial":
			Fired = true
			do(armed.Prefix)
			return ErrInjected
		case "before":
			panic(Crash{*armed})
		case "partial":
			do(armed.Prefix)
			panic(Crash{*armed})
		default:
			do(-1)
			panic(Crash{*armed})
		}
	}
	return do(-1)
}

// File wraps *os.File; reads go straight through, mutations are crash points.
type File struct {
	*os.File
	writable bool
}

func wrap(f *os.File, err error, writable bool) (*File, error) {
	if err != nil {
		return nil, err
	}
	return &File{File: f, writable: writable}, nil
}

func (f *File) Write(b []byte) (n int, err error) {
	err = op("write", f.Name(), len(b), func(prefix int) error {
		if prefix >= 0 && prefix < len(b) {
			n, err = f.File.Write(b[:prefix])
			return err
		}
		n, err = f.File.Write(b)
		return err
	})
	return
}

func (f *File) WriteString(s string) (int, error) { return f.Write([]byte(s)) }

func (f *File) Sync() error {
	return op("sync", f.Name(), 0, func(int) error { return f.File.Sync() })
}

func (f *File) Close() error {
	if !f.writable {
		return f.File.Close()
	}
	return op("close", f.Name(), 0, func(int) error { return f.File.Close() })
}

func (f *File) Chmod(m FileMode) error {
	return op("chmod", f.Name(), 0, func(int) error { return f.File.Chmod(m) })
}

func (f *File) Truncate(size int64) error {
	return op("truncate", f.Name(), 0, func(int) error { return f.File.Truncate(size) })
}

// FailRead, when non-nil, is asked before every read-only open / whole-file read; a non-nil answer is
// returned instead of performing it (a transient I/O error on the read path).
var FailRead func(name string) error

func Open(name string) (*File, error) {
	if FailRead != nil {
		if err := FailRead(name); err != nil {
			return nil, &PathError{Op: "open", Path: name, Err: err}
		}
	}
	f, err := os.Open(name)
	return wrap(f, err, false)
}

func OpenFile(name string, flag int, perm FileMode) (f *File, err error) {
	if flag&(os.O_WRONLY|os.O_RDWR|os.O_CREATE|os.O_TRUNC|os.O_APPEND) == 0 {
		if FailRead != nil {
			if err := FailRead(name); err != nil {
				return nil, &PathError{Op: "open", Path: name, Err: err}
			}
		}
		of, e := os.OpenFile(name, flag, perm)
		return wrap(of, e, false)
	}
	kind := "open-write"
	if flag&os.O_TRUNC != 0 {
		kind = "open-truncate"
	}
	if e := op(kind, name, 0, func(int) error {
		of, e := os.OpenFile(name, flag, perm)
		f, err = wrap(of, e, true)
		return e
	}); e != nil && err == nil {
		f, err = nil, e
	}
	return
}

func Create(name string) (*File, error) {
	return OpenFile(name, os.O_RDWR|os.O_CREATE|os.O_TRUNC, 0666)
}

func CreateTemp(dir, pattern string) (f *File, err error) {
	if e := op("create-temp", dir+"/"+pattern, 0, func(int) error {
		of, e := os.CreateTemp(dir, pattern)
		f, err = wrap(of, e, true)
		return e
	}); e != nil && err == nil {
		f, err = nil, e
	}
	return
}

func WriteFile(name string, data []byte, perm FileMode) error {
	f, err := OpenFile(name, os.O_WRONLY|os.O_CREATE|os.O_TRUNC, perm)
	if err != nil {
		return err
	}
	_, err = f.Write(data)
	if err1 := f.Close(); err1 != nil && err == nil {
		err = err1
	}
	return err
}

func ReadFile(name string) ([]byte, error) {
	if FailRead != nil {
		if err := FailRead(name); err != nil {
			return nil, &PathError{Op: "open", Path: name, Err: err}
		}
	}
	return os.ReadFile(name)
}
func ReadDir(name string) ([]DirEntry, error)    { return os.ReadDir(name) }
func Stat(name string) (FileInfo, error)         { return os.Stat(name) }
func Lstat(name string) (FileInfo, error)        { return os.Lstat(name) }
func IsNotExist(err error) bool                  { return os.IsNotExist(err) }
func IsExist(err error) bool                     { return os.IsExist(err) }
func Getpid() int                                { return os.Getpid() }
func TempDir() string                            { return os.TempDir() }
func Getenv(k string) string                     { return os.Getenv(k) }
func DirFS(dir string) fs.FS                     { return os.DirFS(dir) }
func SameFile(a, b FileInfo) bool                { return os.SameFile(a, b) }
func Readlink(name string) (string, error)       { return os.Readlink(name) }

func Rename(oldpath, newpath string) error {
	return op("rename", oldpath+" -> "+newpath, 0, func(int) error { return os.Rename(oldpath, newpath) })
}

func Remove(name string) error {
	return op("remove", name, 0, func(int) error { return os.Remove(name) })
}

func RemoveAll(name string) error {
	return op("remove-all", name, 0, func(int) error { return os.RemoveAll(name) })
}

func Chmod(name string, m FileMode) error {
	return op("chmod", name, 0, func(int) error { return os.Chmod(name, m) })
}

func Truncate(name string, size int64) error {
	return op("truncate", name, 0, func(int) error { return os.Truncate(name, size) })
}

func Link(oldname, newname string) error {
	return op("link", oldname+" -> "+newname, 0, func(int) error { return os.Link(oldname, newname) })
}

func Symlink(oldname, newname string) error {
	return op("symlink", oldname+" -> "+newname, 0, func(int) error { return os.Symlink(oldname, newname) })
}

func Mkdir(name string, perm FileMode) error {
	return op("mkdir", name, 0, func(int) error { return os.Mkdir(name, perm) })
}

func MkdirAll(path string, perm FileMode) error {
	if st, err := os.Stat(path); err == nil && st.IsDir() {
		return nil // nothing to create: not a mutation
	}
	return op("mkdir-all", path, 0, func(int) error { return os.MkdirAll(path, perm) })
}
